package pogreb

import (
	"log"
	"os"
)

var logger = log.New(os.Stderr, "pogreb: ", 0)

// SetLogger sets the global logger.
func SetLogger(l *log.Logger) {
	if l != nil {
		logger = l
	}
}
