package checks

import (
	"os"
	"syscall"
)

func inodeOf(fi os.FileInfo) uint64 {
	if st, ok := fi.Sys().(*syscall.Stat_t); ok {
		return st.Ino
	}
	return 0
}
