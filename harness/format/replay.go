package format

import (
	"fmt"
	"sort"
)

// Segment is one segment file of a directory.
type Segment struct {
	Name string
	ID   int
	Seq  uint64
	Data []byte
}

// Segments extracts and orders (by sequence id) the segment files of a directory listing.
func Segments(files map[string][]byte) ([]Segment, error) {
	var segs []Segment
	for name, data := range files {
		if len(name) < 4 || name[len(name)-4:] != ".psg" {
			continue
		}
		id, seq, ok := ParseSegmentName(name)
		if !ok {
			return nil, fmt.Errorf("segment file name %q does not follow the documented pattern", name)
		}
		segs = append(segs, Segment{Name: name, ID: id, Seq: seq, Data: data})
	}
	sort.Slice(segs, func(i, j int) bool { return segs[i].Seq < segs[j].Seq })
	return segs, nil
}

// Replay replays the valid record prefix of every segment, oldest first, into a map.
// It returns the contents and, per segment name, the end offset of the valid prefix.
// A segment shorter than a header (a file created but never written) counts as empty with
// valid prefix end 512 (an opener writes the header).
func Replay(files map[string][]byte) (map[string]string, map[string]int, error) {
	segs, err := Segments(files)
	if err != nil {
		return nil, nil, err
	}
	out := map[string]string{}
	ends := map[string]int{}
	for _, s := range segs {
		if len(s.Data) == 0 {
			ends[s.Name] = 512
			continue
		}
		if !HeaderOK(s.Data) {
			return nil, nil, fmt.Errorf("segment %s has no valid header", s.Name)
		}
		recs, end := Decode(s.Data)
		ends[s.Name] = end
		for _, r := range recs {
			if r.Delete {
				delete(out, string(r.Key))
			} else {
				out[string(r.Key)] = string(r.Value)
			}
		}
	}
	return out, ends, nil
}
