package pogreb

import (
	"verif/harness/pinned/internal/errors"
)

var (
	errKeyTooLarge   = errors.New("key is too large")
	errValueTooLarge = errors.New("value is too large")
	errFull          = errors.New("database is full")
	errCorrupted     = errors.New("database is corrupted")
	errLocked        = errors.New("database is locked")
	errBusy          = errors.New("database is busy")
)
