package checks

import (
	"fmt"
	"strings"

	"github.com/akrylysov/pogreb"

	"verif/harness/core"
	"verif/harness/dbx"
	"verif/harness/keys"
)

// hist is the model-based history engine shared by C01, C02 (and reused by others).
type hist struct {
	ch    core.Chooser
	st    *core.Stats
	env   *Env
	cfg   dbx.Config
	db    *pogreb.DB
	uni   *keys.Universe
	ukeys []string
	model map[string]string
	step  int
	full  int // full index check every `full` steps

	// classification
	maxOverflow    int
	maxBuckets     int
	maxLevel       int
	reputAfterHole int
	freeReuse      int
	splitWithHole  int
	restarts       int
	ntRestarts     int
	compactions    int
	compactedSegs  int
	rollovers      int
	identLive      bool
	lastFree       int
	lastBuckets    int
	lastHole       bool
	switchFS       bool
	focusSet       bool
	everPut        map[string]map[string]bool // when non-nil: every value ever put per key
	focusLo        int
	focusHi        int
	growSeq        int
	holeGrowSplits int
	netZero        int
}

func mkValue(step, vlen int) string {
	if vlen == 0 {
		return ""
	}
	s := fmt.Sprintf("v%d.", step)
	if len(s) >= vlen {
		return s
	}
	var sb strings.Builder
	sb.Grow(vlen)
	sb.WriteString(s)
	for sb.Len() < vlen {
		sb.WriteByte(byte('a' + (step+sb.Len())%26))
	}
	return sb.String()
}

var histValueLens = []int{0, 1, 5, 5, 20, 20, 60, 60, 300, 490, 506, 700, 1500, 4090}

func newHist(ch core.Chooser, st *core.Stats, kinds []string, segSizes []int) (*hist, error) {
	h := &hist{ch: ch, st: st, model: map[string]string{}}
	seed := uint32(ch.Int("hashseed", 0, 1<<30))
	pinSeed(seed)
	variant := uint32(ch.Int("univariant", 0, 3))
	h.uni = keys.Build(seed, keys.Spec{Identical: 3, LowBits16: 70, LowBits2: 40, SplitBit: 10, Plain: 40, Variant: variant})
	for _, k := range h.uni.Keys {
		h.ukeys = append(h.ukeys, string(k))
	}
	h.cfg = dbx.DrawConfig(ch, segSizes)
	h.cfg.SyncWrites = core.Pct(ch, "syncwrites", 10)
	h.env = NewEnv(drawEnvKind(ch, kinds))
	h.full = core.PickInt(ch, "fullcheck", []int{1, 4, 16, 64})
	ch.Note("config: %s fs=%s hashseed=%d universe=%d keys", h.cfg, h.env.Kind, seed, len(h.ukeys))
	db, err := dbx.Open(h.env.Dir, h.cfg, h.env.FS)
	if err != nil {
		return nil, fmt.Errorf("Open of an empty directory failed: %v", err)
	}
	h.db = db
	return h, nil
}

func (h *hist) close() {
	if h.db != nil {
		_ = core.Safe(func() error { return h.db.Close() })
		h.db = nil
	}
	h.env.Cleanup()
}

// window draws an index range of the universe, biased to a single hash class.
func (h *hist) window() (int, int) {
	if h.focusSet && core.Pct(h.ch, "usefocus", 70) {
		return h.focusLo, h.focusHi
	}
	lo, hi := h.drawWindow()
	if !h.focusSet {
		h.focusSet, h.focusLo, h.focusHi = true, lo, hi
	}
	return lo, hi
}

func (h *hist) drawWindow() (int, int) {
	n := len(h.ukeys)
	if core.Pct(h.ch, "classwin", 60) {
		// pick a class
		var starts []int
		for i := range h.uni.Class {
			if i == 0 || h.uni.Class[i] != h.uni.Class[i-1] {
				starts = append(starts, i)
			}
		}
		ci := h.ch.Int("class", 0, len(starts)-1)
		lo := starts[ci]
		hi := n - 1
		if ci+1 < len(starts) {
			hi = starts[ci+1] - 1
		}
		if core.Pct(h.ch, "subwin", 50) && hi > lo {
			hi = h.ch.Int("winhi", lo, hi)
		}
		return lo, hi
	}
	lo := h.ch.Int("winlo", 0, n-1)
	hi := h.ch.Int("winhi", lo, n-1)
	return lo, hi
}

func (h *hist) ordered(lo, hi int) []int {
	var idx []int
	switch h.ch.Int("order", 0, 2) {
	case 0:
		for i := lo; i <= hi; i++ {
			idx = append(idx, i)
		}
	case 1:
		for i := hi; i >= lo; i-- {
			idx = append(idx, i)
		}
	default:
		n := hi - lo + 1
		stride := 7
		for n%stride == 0 {
			stride += 2
		}
		for j, i := 0, 0; j < n; j, i = j+1, (i+stride)%n {
			idx = append(idx, lo+i)
		}
	}
	return idx
}

func (h *hist) shape() (dbx.IndexStats, error) {
	// light: dump only (full check done periodically)
	var st dbx.IndexStats
	err := core.Safe(func() error {
		d, cut, err := h.db.VerifIndexDump(100000)
		if err != nil {
			return err
		}
		if cut {
			return fmt.Errorf("index chain is cyclic")
		}
		st.Buckets = int(d.NumBuckets)
		st.Level = int(d.Level)
		st.Free = len(d.FreeBuckets)
		st.SplitIdx = int(d.SplitBucketIdx)
		for _, chain := range d.Chains {
			sawFree := false
			for ci, b := range chain {
				if ci > 0 {
					st.OverflowBuckets++
				}
				used := 0
				for _, sl := range b.Slots {
					if sl.Offset != 0 {
						used++
					}
				}
				if used > 0 && sawFree {
					st.HoleBeforeUsed = true
				}
				if used < len(b.Slots) {
					sawFree = true
				}
			}
			if len(chain) > st.MaxChain {
				st.MaxChain = len(chain)
			}
		}
		return nil
	})
	return st, err
}

// keyBehindHole reports whether key's slot lives in a bucket behind a non-full bucket of its chain.
func (h *hist) keyBehindHole(key string) bool {
	behind := false
	_ = core.Safe(func() error {
		d, _, err := h.db.VerifIndexDump(100000)
		if err != nil {
			return err
		}
		hash := pogreb.VerifHash([]byte(key), h.db.VerifHashSeed())
		bi := h.db.VerifBucketIndex(hash)
		if int(bi) >= len(d.Chains) {
			return nil
		}
		sawFree := false
		for _, b := range d.Chains[bi] {
			used := 0
			for _, sl := range b.Slots {
				if sl.Offset == 0 {
					continue
				}
				used++
				if sawFree && sl.Hash == hash && int(sl.KeySize) == len(key) {
					if k, _, err := h.db.VerifReadSlot(sl); err == nil && string(k) == key {
						behind = true
					}
				}
			}
			if used < len(b.Slots) {
				sawFree = true
			}
		}
		return nil
	})
	return behind
}

func (h *hist) afterStep(touched string) error {
	h.step++
	if err := dbx.CheckPoint(h.db, h.model, touched); err != nil {
		return fmt.Errorf("step %d: %v", h.step, err)
	}
	other := h.ukeys[h.ch.Int("otherkey", 0, len(h.ukeys)-1)]
	if err := dbx.CheckPoint(h.db, h.model, other); err != nil {
		return fmt.Errorf("step %d (other key): %v", h.step, err)
	}
	var cnt uint32
	if err := core.Safe(func() error { cnt = h.db.Count(); return nil }); err != nil {
		return err
	}
	if int(cnt) != len(h.model) {
		return fmt.Errorf("step %d: Count()=%d, reference map holds %d keys", h.step, cnt, len(h.model))
	}
	sh, err := h.shape()
	if err != nil {
		return fmt.Errorf("step %d: index dump: %v", h.step, err)
	}
	if sh.OverflowBuckets > h.maxOverflow {
		h.maxOverflow = sh.OverflowBuckets
	}
	if sh.Buckets > h.maxBuckets {
		h.maxBuckets = sh.Buckets
	}
	if sh.Level > h.maxLevel {
		h.maxLevel = sh.Level
	}
	if sh.Free < h.lastFree && sh.Buckets == h.lastBuckets {
		h.freeReuse++
	}
	if sh.Buckets > h.lastBuckets && h.lastHole {
		h.splitWithHole++
	}
	h.lastFree, h.lastBuckets, h.lastHole = sh.Free, sh.Buckets, sh.HoleBeforeUsed
	if h.step%h.full == 0 {
		if _, err := dbx.CheckIndex(h.db); err != nil {
			return fmt.Errorf("step %d: index invariant: %v", h.step, err)
		}
	}
	return nil
}

func (h *hist) put(key string, vlen int) error {
	v := mkValue(h.step, vlen)
	if _, ok := h.model[key]; ok && h.maxOverflow > 0 && h.lastHole {
		if h.keyBehindHole(key) {
			h.reputAfterHole++
		}
	}
	h.ch.Note("put %s len=%d", dbx.K(key), len(v))
	segsBefore := 0
	_ = core.Safe(func() error { segsBefore = len(h.db.VerifSegments()); return nil })
	if err := core.Safe(func() error { return h.db.Put([]byte(key), []byte(v)) }); err != nil {
		return fmt.Errorf("step %d: Put(%s, %dB) failed: %v", h.step, dbx.K(key), len(v), err)
	}
	_ = core.Safe(func() error {
		if len(h.db.VerifSegments()) > segsBefore {
			h.rollovers++
		}
		return nil
	})
	h.model[key] = v
	if h.everPut != nil {
		if h.everPut[key] == nil {
			h.everPut[key] = map[string]bool{}
		}
		h.everPut[key][v] = true
	}
	return h.afterStep(key)
}

func (h *hist) del(key string) error {
	h.ch.Note("delete %s", dbx.K(key))
	if err := core.Safe(func() error { return h.db.Delete([]byte(key)) }); err != nil {
		return fmt.Errorf("step %d: Delete(%s) failed: %v", h.step, dbx.K(key), err)
	}
	delete(h.model, key)
	return h.afterStep(key)
}

func (h *hist) compact() error {
	h.ch.Note("compact")
	var cr pogreb.CompactionResult
	if err := core.Safe(func() error {
		var e error
		cr, e = h.db.Compact()
		return e
	}); err != nil {
		return fmt.Errorf("step %d: Compact failed: %v", h.step, err)
	}
	h.compactions++
	h.compactedSegs += cr.CompactedSegments
	return h.fullCheck("after Compact")
}

func (h *hist) sync() error {
	h.ch.Note("sync")
	if err := core.Safe(func() error { return h.db.Sync() }); err != nil {
		return fmt.Errorf("step %d: Sync failed: %v", h.step, err)
	}
	return nil
}

func (h *hist) fullCheck(when string) error {
	if err := dbx.CheckAll(h.db, h.model, nil); err != nil {
		return fmt.Errorf("step %d %s: %v", h.step, when, err)
	}
	if _, err := dbx.CheckIndex(h.db); err != nil {
		return fmt.Errorf("step %d %s: index invariant: %v", h.step, when, err)
	}
	return nil
}

type idxMeta struct {
	Level            uint8
	Keys, Buckets, S uint32
	Free             string
}

func (h *hist) idxMeta() (idxMeta, error) {
	var m idxMeta
	err := core.Safe(func() error {
		d, _, err := h.db.VerifIndexDump(100000)
		if err != nil {
			return err
		}
		m = idxMeta{d.Level, d.NumKeys, d.NumBuckets, d.SplitBucketIdx, fmt.Sprint(d.FreeBuckets)}
		return nil
	})
	return m, err
}

// restart performs Close + Open and the C02 checks. With noWrite it then closes and opens once
// more and demands byte-identical segment files.
func (h *hist) restart(noWrite bool) error {
	h.ch.Note("restart noWrite=%v", noWrite)
	sh, _ := h.shape()
	segs := 0
	_ = core.Safe(func() error { segs = len(h.db.VerifSegments()); return nil })
	nt := sh.OverflowBuckets > 0 || sh.SplitIdx != 0 || sh.Free > 0 || segs >= 2 || h.compactedSegs > 0
	before, err := h.idxMeta()
	if err != nil {
		return err
	}
	if err := core.Safe(func() error { return h.db.Close() }); err != nil {
		h.db = nil
		return fmt.Errorf("step %d: Close failed: %v", h.step, err)
	}
	h.db = nil
	h.reseed()
	if h.switchFS && (h.env.Kind == "os" || h.env.Kind == "mmap") && core.Pct(h.ch, "switchfs", 60) {
		h.env.SwitchOS()
		h.ch.Note("switch file system to %s", h.env.Kind)
		h.st.Count("restart_fs_switch", 1)
	}
	reopen := func(what string) error {
		dbx.ResetLog()
		db, err := dbx.Open(h.env.Dir, h.cfg, h.env.FS)
		if err != nil {
			return fmt.Errorf("step %d: %s: Open after a clean Close failed: %v", h.step, what, err)
		}
		h.db = db
		if dbx.RecoveryRan() {
			return fmt.Errorf("step %d: %s: Open after a clean Close ran recovery", h.step, what)
		}
		for _, n := range h.env.Names() {
			if strings.HasSuffix(n, ".bac") {
				return fmt.Errorf("step %d: %s: recovery backup file %s present after a clean reopen", h.step, what, n)
			}
		}
		after, err := h.idxMeta()
		if err != nil {
			return err
		}
		if after != before {
			return fmt.Errorf("step %d: %s: index metadata changed across clean restart: before %+v after %+v", h.step, what, before, after)
		}
		keysToCheck := h.ukeys
		if len(keysToCheck) > 60 {
			lo := h.ch.Int("rcheck", 0, len(keysToCheck)-60)
			keysToCheck = keysToCheck[lo : lo+60]
		}
		if err := dbx.CheckAll(h.db, h.model, keysToCheck); err != nil {
			return fmt.Errorf("step %d: %s: after clean restart: %v", h.step, what, err)
		}
		if _, err := dbx.CheckIndex(h.db); err != nil {
			return fmt.Errorf("step %d: %s: index invariant after clean restart: %v", h.step, what, err)
		}
		return nil
	}
	if err := reopen("reopen"); err != nil {
		return err
	}
	h.restarts++
	if nt {
		h.ntRestarts++
	}
	if noWrite {
		filesBefore, err := h.env.Files()
		if err != nil {
			return &core.Inconclusive{Msg: err.Error()}
		}
		if err := core.Safe(func() error { return h.db.Close() }); err != nil {
			h.db = nil
			return fmt.Errorf("step %d: Close of a session without writes failed: %v", h.step, err)
		}
		h.db = nil
		filesAfter, err := h.env.Files()
		if err != nil {
			return &core.Inconclusive{Msg: err.Error()}
		}
		for name, b := range filesBefore {
			if !strings.HasSuffix(name, ".psg") {
				continue
			}
			a, ok := filesAfter[name]
			if !ok || string(a) != string(b) {
				return fmt.Errorf("step %d: Open+Close without writes changed segment file %s (%d -> %d bytes, present=%v)", h.step, name, len(b), len(a), ok)
			}
		}
		for name := range filesAfter {
			if strings.HasSuffix(name, ".psg") {
				if _, ok := filesBefore[name]; !ok {
					return fmt.Errorf("step %d: Open+Close without writes created segment file %s", h.step, name)
				}
			}
		}
		if err := reopen("reopen after no-write session"); err != nil {
			return err
		}
		h.restarts++
		h.st.Count("nowrite_sessions", 1)
	}
	return nil
}

// phases runs drawn phases until the step budget is used.
func (h *hist) phases(maxPhases, maxSteps int, weights []int) error {
	n := h.ch.Int("phases", 1, maxPhases)
	for p := 0; p < n && h.step < maxSteps; p++ {
		switch core.Weighted(h.ch, "phase", weights) {
		case 0: // bulk insert
			lo, hi := h.window()
			vlen := core.PickInt(h.ch, "vlen", histValueLens)
			h.ch.Note("phase bulk-insert [%d,%d] vlen=%d", lo, hi, vlen)
			for _, i := range h.ordered(lo, hi) {
				if h.step >= maxSteps {
					break
				}
				if err := h.put(h.ukeys[i], vlen); err != nil {
					return err
				}
			}
		case 1: // bulk delete
			lo, hi := h.window()
			h.ch.Note("phase bulk-delete [%d,%d]", lo, hi)
			for _, i := range h.ordered(lo, hi) {
				if h.step >= maxSteps {
					break
				}
				if err := h.del(h.ukeys[i]); err != nil {
					return err
				}
			}
		case 2: // churn
			lo, hi := h.window()
			cnt := h.ch.Int("churn", 1, 60)
			h.ch.Note("phase churn [%d,%d] x%d", lo, hi, cnt)
			for j := 0; j < cnt && h.step < maxSteps; j++ {
				k := h.ukeys[h.ch.Int("k", lo, hi)]
				switch core.Weighted(h.ch, "op", []int{5, 3, 1, 1}) {
				case 0:
					if err := h.put(k, core.PickInt(h.ch, "vlen", histValueLens)); err != nil {
						return err
					}
				case 1:
					if err := h.del(k); err != nil {
						return err
					}
				case 2:
					if err := h.afterStep(k); err != nil {
						return err
					}
				case 3:
					if err := h.sync(); err != nil {
						return err
					}
				}
			}
		case 3:
			if err := h.compact(); err != nil {
				return err
			}
		case 4:
			if err := h.restart(false); err != nil {
				return err
			}
		case 5:
			if err := h.restart(true); err != nil {
				return err
			}
		case 6:
			if err := h.holeAndGrow(maxSteps); err != nil {
				return err
			}
		case 7:
			if err := h.netZeroSession(maxSteps); err != nil {
				return err
			}
		}
	}
	return h.fullCheck("at the end of the history")
}

// holeAndGrow is a directed phase: it opens holes in the non-tail buckets of a long bucket chain
// (deleting keys found there through the index dump) and then inserts fresh keys that live in
// other chains, so that the index grows - and the split pointer passes the chain - while the
// holes are still open. Flat generation reaches this shape in about 1 of 1000 histories.
func (h *hist) holeAndGrow(maxSteps int) error {
	type cand struct {
		bucket int
		keys   []string
	}
	find := func() []cand {
		var out []cand
		_ = core.Safe(func() error {
			d, _, err := h.db.VerifIndexDump(100000)
			if err != nil {
				return err
			}
			for bi, chain := range d.Chains {
				if len(chain) < 2 {
					continue
				}
				c := cand{bucket: bi}
				for _, b := range chain[:len(chain)-1] {
					for _, sl := range b.Slots {
						if sl.Offset == 0 {
							continue
						}
						if k, _, err := h.db.VerifReadSlot(sl); err == nil {
							c.keys = append(c.keys, string(k))
						}
					}
				}
				if len(c.keys) > 0 {
					out = append(out, c)
				}
			}
			return nil
		})
		return out
	}
	cands := find()
	if len(cands) == 0 {
		// build a long chain first: insert the class that shares the low 16 hash bits
		h.ch.Note("phase hole-and-grow: building a chain first")
		vlen := core.PickInt(h.ch, "vlen", []int{1, 5, 20})
		for i, k := range h.ukeys {
			if i < len(h.uni.Class) && h.uni.Class[i] == "low16" && h.step < maxSteps {
				if _, live := h.model[k]; !live {
					if err := h.put(k, vlen); err != nil {
						return err
					}
				}
			}
		}
		cands = find()
		if len(cands) == 0 {
			return nil
		}
	}
	c := cands[h.ch.Int("holechain", 0, len(cands)-1)]
	nd := h.ch.Int("holes", 1, 4)
	h.ch.Note("phase hole-and-grow: chain of bucket %d, %d holes", c.bucket, nd)
	for i := 0; i < nd && len(c.keys) > 0 && h.step < maxSteps; i++ {
		j := h.ch.Int("holekey", 0, len(c.keys)-1)
		k := c.keys[j]
		c.keys = append(c.keys[:j], c.keys[j+1:]...)
		if err := h.del(k); err != nil {
			return err
		}
	}
	grow := h.ch.Int("grow", 5, 120)
	vlen := core.PickInt(h.ch, "vlen", []int{0, 1, 5, 20, 60})
	bucketsBefore := h.lastBuckets
	for i := 0; i < grow && h.step < maxSteps; i++ {
		h.growSeq++
		k := fmt.Sprintf("grow-%d-%d", h.growSeq, h.step)
		h.ukeys = append(h.ukeys, k)
		if err := h.put(k, vlen); err != nil {
			return err
		}
	}
	if h.lastBuckets > bucketsBefore {
		h.holeGrowSplits += h.lastBuckets - bucketsBefore
	}
	return h.fullCheck("after the hole-and-grow phase")
}

// netZeroSession is a directed phase aimed at metadata that Close persists: a session whose net
// effect leaves the number of keys, the number of buckets, level and split pointer exactly as
// they were loaded, although the index changed underneath (an insert into a completely full
// chain takes a bucket from the free overflow-bucket list, a delete elsewhere restores the key
// count). The phase is bracketed by clean restarts; the restart check compares the complete
// index metadata before Close and after Open.
func (h *hist) netZeroSession(maxSteps int) error {
	type chainInfo struct {
		idx      int
		tailFree int
		hash     uint32
		buckets  int
	}
	survey := func() (best *chainInfo, free int, other string) {
		_ = core.Safe(func() error {
			d, _, err := h.db.VerifIndexDump(100000)
			if err != nil {
				return err
			}
			free = len(d.FreeBuckets)
			for bi, chain := range d.Chains {
				tail := chain[len(chain)-1]
				used := 0
				var hsh uint32
				for _, sl := range tail.Slots {
					if sl.Offset != 0 {
						used++
						hsh = sl.Hash
					}
				}
				if used == 0 {
					continue
				}
				ci := &chainInfo{idx: bi, tailFree: len(tail.Slots) - used, hash: hsh, buckets: len(chain)}
				if best == nil || ci.tailFree < best.tailFree {
					best = ci
				}
			}
			// a live key of another chain (to be deleted so that the key count nets to zero)
			if best != nil {
				for bi, chain := range d.Chains {
					if bi == best.idx {
						continue
					}
					for _, b := range chain {
						for _, sl := range b.Slots {
							if sl.Offset != 0 && other == "" {
								if k, _, err := h.db.VerifReadSlot(sl); err == nil {
									other = string(k)
								}
							}
						}
					}
				}
			}
			return nil
		})
		return
	}
	best, free, _ := survey()
	if best == nil || best.tailFree > 12 || h.step+best.tailFree+4 > maxSteps {
		h.st.Count("netzero_phase_not_applicable", 1)
		return nil
	}
	h.ch.Note("phase net-zero session: chain %d (%d buckets, %d free slots in its tail), %d free overflow buckets", best.idx, best.buckets, best.tailFree, free)
	seed := h.db.VerifHashSeed()
	mk := func() string {
		h.growSeq++
		// same low bits as a key of the chain (same bucket for every level reached here), new high bits
		target := best.hash&0x000fffff | uint32(h.growSeq&0xfff)<<20
		k := string(keys.WithHash([]byte{9, byte(h.growSeq), byte(h.growSeq >> 8), 1}, seed, target))
		h.ukeys = append(h.ukeys, k)
		return k
	}
	// fill the tail of the chain completely
	for i := 0; i < best.tailFree; i++ {
		if err := h.put(mk(), 5); err != nil {
			return err
		}
	}
	if err := h.restart(false); err != nil {
		return err
	}
	b2, free2, other := survey()
	if b2 == nil || other == "" {
		return nil
	}
	before, _ := h.idxMeta()
	// the session: one delete elsewhere, one insert into the full chain
	if err := h.del(other); err != nil {
		return err
	}
	if err := h.put(mk(), 5); err != nil {
		return err
	}
	after, _ := h.idxMeta()
	if before.Keys == after.Keys && before.Buckets == after.Buckets && before.Level == after.Level && before.S == after.S && before.Free != after.Free {
		h.st.Count("netzero_sessions_changing_only_the_free_list", 1)
		h.netZero++
	}
	_ = free2
	if err := h.restart(false); err != nil {
		return err
	}
	// use the index once more: further overflow allocations must not hand out a live bucket
	for i := 0; i < 3 && h.step < maxSteps; i++ {
		if err := h.put(mk(), 5); err != nil {
			return err
		}
	}
	return h.fullCheck("after the net-zero session phase")
}

// reseed changes the value a freshly drawn hash seed is replaced with. pogreb draws a new
// random seed whenever it opens a database whose index is empty (never written, emptied, or
// about to be rebuilt by recovery) and keeps the stored seed otherwise; the override is only
// consulted in the first case. Varying it between sessions therefore behaves exactly like real
// random seeds - a seed that is persisted or reloaded wrongly shows - and stays deterministic.
// (The engineered hash classes of the universe lose their collisions under the new seed; the
// keys stay valid keys.)
func (h *hist) reseed() {
	if core.Pct(h.ch, "reseed", 30) {
		seed := uint32(h.ch.Int("newseed", 0, 1<<30))
		pinSeed(seed)
		h.st.Count("sessions_with_changed_seed_override", 1)
	}
}

func (h *hist) classify() {
	h.st.Eval(1)
	c := func(name string, b bool) {
		if b {
			h.st.Count(name, 1)
		}
	}
	c("cases_overflow", h.maxOverflow > 0)
	c("cases_split", h.maxBuckets > 1)
	c("cases_level_ge2", h.maxLevel >= 2)
	c("cases_free_reuse", h.freeReuse > 0)
	c("cases_reput_after_hole", h.reputAfterHole > 0)
	c("cases_split_with_hole", h.splitWithHole > 0)
	c("cases_hole_and_grow_phase_with_split", h.holeGrowSplits > 0)
	c("cases_rollover", h.rollovers > 0)
	c("cases_compacted_segments", h.compactedSegs > 0)
	c("cases_restart", h.restarts > 0)
	c("cases_fs_"+h.env.Kind, true)
	h.st.Count("steps", int64(h.step))
	h.st.Count("restarts", int64(h.restarts))
	h.st.Count("restarts_nontrivial", int64(h.ntRestarts))
}
