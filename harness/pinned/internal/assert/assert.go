package assert

import (
	"reflect"
	"testing"
	"time"
)

// Equal fails the test when expected is not equal to actual.
func Equal(t testing.TB, expected interface{}, actual interface{}) {
	if !reflect.DeepEqual(expected, actual) {
		t.Helper()
		t.Fatalf("expected %+v; got %+v", expected, actual)
	}
}

// https://github.com/golang/go/blob/go1.15/src/reflect/value.go#L1071
var nillableKinds = map[reflect.Kind]bool{
	reflect.Chan:          true,
	reflect.Func:          true,
	reflect.Map:           true,
	reflect.Ptr:           true,
	reflect.UnsafePointer: true,
	reflect.Interface:     true,
	reflect.Slice:         true,
}

// Nil fails the test when obj is not nil.
func Nil(t testing.TB, obj interface{}) {
	if obj == nil {
		return
	}
	val := reflect.ValueOf(obj)
	if !nillableKinds[val.Kind()] || !val.IsNil() {
		t.Helper()
		t.Fatalf("expected nil; got %+v", obj)
	}
}

// NotNil fails the test when obj is nil.
func NotNil(t testing.TB, obj interface{}) {
	val := reflect.ValueOf(obj)
	if obj == nil || (nillableKinds[val.Kind()] && val.IsNil()) {
		t.Helper()
		t.Fatalf("expected not nil; got %+v", obj)
	}
}

const pollingInterval = time.Millisecond * 10 // How often CompleteWithin polls the cond function.

// CompleteWithin fails the test when cond doesn't succeed within waitDur.
func CompleteWithin(t testing.TB, waitDur time.Duration, cond func() bool) {
	start := time.Now()
	for time.Since(start) < waitDur {
		if cond() {
			return
		}
		time.Sleep(pollingInterval)
	}
	t.Helper()
	t.Fatalf("expected to complete within %v", waitDur)
}

// Panic fails the test when the test doesn't panic with the expected message.
func Panic(t testing.TB, expectedMessage string, f func()) {
	t.Helper()
	var message interface{}
	func() {
		defer func() {
			message = recover()
		}()
		f()
	}()
	Equal(t, expectedMessage, message)
}
