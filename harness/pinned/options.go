package pogreb

import (
	"math"
	"time"

	"verif/harness/pinned/fs"
)

// Options holds the optional DB parameters.
type Options struct {
	// BackgroundSyncInterval sets the amount of time between background Sync() calls.
	//
	// Setting the value to 0 disables the automatic background synchronization.
	// Setting the value to -1 makes the DB call Sync() after every write operation.
	// Default: 0
	BackgroundSyncInterval time.Duration

	// BackgroundCompactionInterval sets the amount of time between background Compact() calls.
	//
	// Setting the value to 0 disables the automatic background compaction.
	// Default: 0
	BackgroundCompactionInterval time.Duration

	// FileSystem sets the file system implementation.
	//
	// Default: fs.OSMMap.
	FileSystem fs.FileSystem
	rootFS fs.FileSystem

	maxSegmentSize             uint32
	compactionMinSegmentSize   uint32
	compactionMinFragmentation float32
}

func (src *Options) copyWithDefaults(path string) *Options {
	opts := Options{}
	if src != nil {
		opts = *src
	}
	if opts.FileSystem == nil {
		opts.FileSystem = fs.DefaultFileSystem()
	}
	opts.rootFS = opts.FileSystem
	opts.FileSystem = fs.Sub(opts.FileSystem, path)
	if opts.maxSegmentSize == 0 {
		opts.maxSegmentSize = math.MaxUint32
	}
	if opts.compactionMinSegmentSize == 0 {
		opts.compactionMinSegmentSize = 32 << 20
	}
	if opts.compactionMinFragmentation == 0 {
		opts.compactionMinFragmentation = 0.5
	}
	return &opts
}
