//go:build windows
// +build windows

package fs

import (
	"os"
	"syscall"
	"unsafe"
)

func mmap(f *os.File, fileSize int64, mappingSize int64) ([]byte, error) {
	size := fileSize
	low, high := uint32(size), uint32(size>>32)
	fmap, err := syscall.CreateFileMapping(syscall.Handle(f.Fd()), nil, syscall.PAGE_READONLY, high, low, nil)
	if err != nil {
		return nil, err
	}
	defer syscall.CloseHandle(fmap)
	ptr, err := syscall.MapViewOfFile(fmap, syscall.FILE_MAP_READ, 0, 0, uintptr(size))
	if err != nil {
		return nil, err
	}
	data := (*[maxMmapSize]byte)(unsafe.Pointer(ptr))[:size]
	return data, nil
}

func munmap(data []byte) error {
	return syscall.UnmapViewOfFile(uintptr(unsafe.Pointer(&data[0])))
}

func madviceRandom(data []byte) error {
	return nil
}

func (f *osMMapFile) Truncate(size int64) error {
	// Truncating a memory-mapped file fails on Windows. Unmap it first.
	if err := f.munmap(); err != nil {
		return err
	}
	if err := f.File.Truncate(size); err != nil {
		return err
	}
	f.size = size
	return f.mremap()
}
