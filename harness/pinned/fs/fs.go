/*
Package fs provides a file system interface.
*/
package fs

import (
	"errors"
	"io"
	"os"
)

var (
	errAppendModeNotSupported = errors.New("append mode is not supported")
)

// File is the interface compatible with os.File.
// All methods are not thread-safe, except for ReadAt, Slice and Stat.
type File interface {
	io.Closer
	io.Reader
	io.ReaderAt
	io.Seeker
	io.Writer
	io.WriterAt

	// Stat returns os.FileInfo describing the file.
	Stat() (os.FileInfo, error)

	// Sync commits the current contents of the file.
	Sync() error

	// Truncate changes the size of the file.
	Truncate(size int64) error

	// Slice reads and returns the contents of file from offset start to offset end.
	Slice(start int64, end int64) ([]byte, error)
}

// LockFile represents a lock file.
type LockFile interface {
	// Unlock and removes the lock file.
	Unlock() error
}

// FileSystem represents a file system.
type FileSystem interface {
	// OpenFile opens the file with specified flag.
	OpenFile(name string, flag int, perm os.FileMode) (File, error)

	// Stat returns os.FileInfo describing the file.
	Stat(name string) (os.FileInfo, error)

	// Remove removes the file.
	Remove(name string) error

	// Rename renames oldpath to newpath.
	Rename(oldpath, newpath string) error

	// ReadDir reads the directory and returns a list of directory entries.
	ReadDir(name string) ([]os.DirEntry, error)

	// CreateLockFile creates a lock file.
	CreateLockFile(name string, perm os.FileMode) (LockFile, bool, error)

	// MkdirAll creates a directory named path.
	MkdirAll(path string, perm os.FileMode) error
}
