package checks

import (
	"bytes"
	"fmt"
	"testing"

	"github.com/akrylysov/pogreb"

	"verif/harness/core"
	"verif/harness/dbx"
	"verif/harness/keys"
)

var c16KeyLens = []int{0, 1, 2, 3, 4, 5, 8, 255, 256, 65534, 65535, 65536, 65537, 70000}

func c16Key(l int, variant int) string {
	b := bytes.Repeat([]byte{byte('a' + variant)}, l)
	return string(b)
}

func filesEqual(a, b map[string][]byte) string {
	for n, x := range a {
		y, ok := b[n]
		if !ok {
			return "file " + n + " disappeared"
		}
		if !bytes.Equal(x, y) {
			return fmt.Sprintf("file %s changed (%d -> %d bytes)", n, len(x), len(y))
		}
	}
	for n := range b {
		if _, ok := a[n]; !ok {
			return "file " + n + " appeared"
		}
	}
	return ""
}

type c16state struct {
	ch    core.Chooser
	st    *core.Stats
	env   *Env
	cfg   dbx.Config
	db    *pogreb.DB
	model map[string]string
	seed  uint32
	step  int
}

func (c *c16state) reopen(unclean bool) error {
	if unclean {
		c.ch.Note("kill + recover")
		if c.env.Kind == "fault" {
			c.env.Fault.KillLocks()
		} else {
			c.db.VerifKill()
		}
		c.st.Count("unclean_restarts", 1)
	} else {
		c.ch.Note("clean restart")
		if err := core.Safe(func() error { return c.db.Close() }); err != nil {
			return fmt.Errorf("Close failed: %v", err)
		}
		c.st.Count("clean_restarts", 1)
	}
	c.db = nil
	dbx.ResetLog()
	db, err := dbx.Open(c.env.Dir, c.cfg, c.env.FS)
	if err != nil {
		return fmt.Errorf("Open (unclean=%v) failed: %v", unclean, err)
	}
	c.db = db
	if unclean != dbx.RecoveryRan() {
		return fmt.Errorf("Open after unclean=%v shutdown: recovery ran=%v", unclean, dbx.RecoveryRan())
	}
	var ks []string
	for k := range c.model {
		ks = append(ks, k)
	}
	if err := dbx.CheckAll(c.db, c.model, ks); err != nil {
		return fmt.Errorf("after restart (unclean=%v): %v", unclean, err)
	}
	return nil
}

// C16: size limits are enforced atomically; every admissible size round-trips.
func propC16(ch core.Chooser, st *core.Stats) error {
	seed := uint32(ch.Int("hashseed", 0, 1<<30))
	pinSeed(seed)
	kind := drawEnvKind(ch, []string{"fault", "fault", "os", "mmap", "mem"})
	env := NewEnv(kind)
	defer env.Cleanup()
	segSizes := []int{600, 1024, 4096, 70000, 200000, 0}
	cfg := dbx.Config{SegSize: uint32(core.PickInt(ch, "segsize", segSizes)), MinSeg: 520, Frag: 0.02}
	cfg.SyncWrites = core.Pct(ch, "syncwrites", 10)
	ch.Note("config: %s fs=%s hashseed=%d", cfg, kind, seed)
	c := &c16state{ch: ch, st: st, env: env, cfg: cfg, model: map[string]string{}, seed: seed}
	db, err := dbx.Open(env.Dir, cfg, env.FS)
	if err != nil {
		return err
	}
	c.db = db
	defer func() {
		if c.db != nil {
			_ = core.Safe(func() error { return c.db.Close() })
		}
	}()
	segCap := 1 << 30
	if cfg.SegSize != 0 {
		segCap = int(cfg.SegSize) - 512
	}
	boundaries := 0
	steps := ch.Int("steps", 1, core.Scale(20, 50))
	for i := 0; i < steps; i++ {
		switch core.Weighted(ch, "action", []int{10, 3, 4, 1, 1, 1, 1}) {
		case 0: // put with boundary sizes
			kl := core.PickInt(ch, "klen", c16KeyLens)
			k := c16Key(kl, ch.Int("kvariant", 0, 1))
			// value lengths around sector, buffer and segment boundaries for this key length
			rec := func(total int) int { return total - 10 - kl } // value length giving an encoded record of `total` bytes
			cands := []int{0, 1, 2, 505, 506, 507, 511, 512, 513, 4085, 4086, 4087, 4095, 4096, 4097,
				rec(512), rec(512) + 1, rec(4096), rec(4096) - 1, rec(segCap) - 1, rec(segCap), rec(segCap) + 1, rec(segCap) + 600, segCap + 100}
			vl := core.PickInt(ch, "vlen", cands)
			if vl < 0 {
				vl = 0
			}
			if vl > 300000 {
				vl = 300000
			}
			c.step++
			v := mkValue(c.step, vl)
			ch.Note("put klen=%d vlen=%d", kl, len(v))
			if kl > pogreb.MaxKeyLength {
				before, _ := env.Files()
				err := core.Safe(func() error { return c.db.Put([]byte(k), []byte(v)) })
				if err == nil {
					return fmt.Errorf("Put with a %d-byte key (limit %d) returned no error", kl, pogreb.MaxKeyLength)
				}
				after, _ := env.Files()
				if d := filesEqual(before, after); d != "" {
					return fmt.Errorf("a rejected Put (key of %d bytes) changed the directory: %s", kl, d)
				}
				if err := dbx.CheckAll(c.db, c.model, nil); err != nil {
					return fmt.Errorf("after a rejected Put (key of %d bytes): %v", kl, err)
				}
				st.Count("rejected_put_key_too_long", 1)
				boundaries++
			} else {
				if err := core.Safe(func() error { return c.db.Put([]byte(k), []byte(v)) }); err != nil {
					return fmt.Errorf("Put(klen=%d, vlen=%d) failed: %v", kl, len(v), err)
				}
				c.model[k] = v
				if err := dbx.CheckPoint(c.db, c.model, k); err != nil {
					return err
				}
				if kl >= 65534 || kl == 0 {
					st.Count("put_key_len_boundary", 1)
					boundaries++
				}
				if 10+kl+len(v) > segCap {
					st.Count("put_record_exceeds_whole_segment", 1)
					boundaries++
				}
				if len(v) == 0 {
					st.Count("put_empty_value", 1)
				}
			}
		case 1: // value over the limit: never touched, must be rejected atomically
			if !core.Pct(ch, "giantreject", 30) {
				continue
			}
			kl := core.PickInt(ch, "klen", []int{0, 1, 65535})
			k := c16Key(kl, 0)
			big := make([]byte, pogreb.MaxValueLength+1)
			ch.Note("put klen=%d vlen=MaxValueLength+1", kl)
			before, _ := env.Files()
			err := core.Safe(func() error { return c.db.Put([]byte(k), big) })
			if err == nil {
				return fmt.Errorf("Put with a value of MaxValueLength+1 bytes returned no error")
			}
			after, _ := env.Files()
			if d := filesEqual(before, after); d != "" {
				return fmt.Errorf("a rejected Put (value over the limit) changed the directory: %s", d)
			}
			if err := dbx.CheckAll(c.db, c.model, nil); err != nil {
				return fmt.Errorf("after a rejected Put (value over the limit): %v", err)
			}
			st.Count("rejected_put_value_too_long", 1)
			boundaries++
		case 2: // over-long lookup key constructed to collide with a stored short key
			sl := core.PickInt(ch, "shortlen", []int{0, 4, 8})
			target := uint32(ch.Int("target", 0, 1<<30))
			var short []byte
			if sl > 0 {
				short = keys.WithHash(make([]byte, sl-4), seed, target)
			} else {
				target = pogreb.VerifHash(nil, seed)
			}
			long := keys.WithHash(bytes.Repeat([]byte{'L'}, 65536+sl-4), seed, target)
			if len(long) != 65536+sl || uint16(len(long)) != uint16(len(short)) {
				return &core.Inconclusive{Msg: "collision construction failed"}
			}
			c.step++
			v := mkValue(c.step, 7)
			ch.Note("put short key len=%d hash=%08x; probe with colliding key of %d bytes", sl, target, len(long))
			if err := core.Safe(func() error { return c.db.Put(short, []byte(v)) }); err != nil {
				return fmt.Errorf("Put failed: %v", err)
			}
			c.model[string(short)] = v
			err := core.Safe(func() error {
				if got, err := c.db.Get(long); err != nil || got != nil {
					return fmt.Errorf("Get with a %d-byte key returned %q, %v: it matched the stored %d-byte key with the same hash and the same length modulo 65536", len(long), got, err, sl)
				}
				if has, err := c.db.Has(long); err != nil || has {
					return fmt.Errorf("Has with a %d-byte key returned %v, %v (a %d-byte key with the same hash is stored)", len(long), has, err, sl)
				}
				if got, err := c.db.GetAppend(long, []byte("x")); err != nil || got != nil {
					return fmt.Errorf("GetAppend with a %d-byte key returned %q, %v", len(long), got, err)
				}
				if err := c.db.Delete(long); err != nil {
					return fmt.Errorf("Delete with a %d-byte key failed: %v", len(long), err)
				}
				if err := c.db.Put(long, []byte("y")); err == nil {
					return fmt.Errorf("Put with a %d-byte key returned no error", len(long))
				}
				return nil
			})
			if err != nil {
				return err
			}
			if err := dbx.CheckAll(c.db, c.model, []string{string(short)}); err != nil {
				return fmt.Errorf("after probing with an over-long colliding key: %v", err)
			}
			st.Count("overlong_colliding_lookup", 1)
			boundaries++
		case 3:
			if len(c.model) > 0 {
				var ks []string
				for k := range c.model {
					ks = append(ks, k)
				}
				sortStrings(ks)
				k := ks[ch.Int("delidx", 0, len(ks)-1)]
				ch.Note("delete klen=%d", len(k))
				if err := core.Safe(func() error { return c.db.Delete([]byte(k)) }); err != nil {
					return fmt.Errorf("Delete failed: %v", err)
				}
				delete(c.model, k)
				if err := dbx.CheckPoint(c.db, c.model, k); err != nil {
					return err
				}
			}
		case 4:
			if err := c.reopen(false); err != nil {
				return err
			}
		case 5:
			if err := c.reopen(true); err != nil {
				return err
			}
		case 6:
			ch.Note("compact")
			if err := core.Safe(func() error { _, e := c.db.Compact(); return e }); err != nil {
				return fmt.Errorf("Compact failed: %v", err)
			}
		}
	}
	// everything round-trips through restart and through recovery
	if err := c.reopen(false); err != nil {
		return err
	}
	if err := c.reopen(true); err != nil {
		return err
	}
	st.Eval(1)
	st.Count("fs_"+kind, 1)
	if boundaries > 0 {
		st.Nontrivial(core.FingerprintOf(ch))
		if st.WantSample() {
			st.Sample(map[string]interface{}{"history": core.NotesOf(ch, 40), "boundary_hits": boundaries})
		}
	}
	return nil
}

func TestC16(t *testing.T) { core.Run(t, "C16", "C16", propC16) }

// propC16Giant exercises values at the 512 MiB limit (few cases, on a real directory).
func propC16Giant(ch core.Chooser, st *core.Stats) error {
	pinSeed(uint32(ch.Int("hashseed", 0, 1<<30)))
	kind := drawEnvKind(ch, []string{"os", "mmap"})
	if !core.Thorough() {
		kind = "mmap" // the single quick case uses the default file system
	}
	env := NewEnv(kind)
	defer env.Cleanup()
	cfg := dbx.Config{SegSize: 0, MinSeg: 0, Frag: 0}
	db, err := dbx.Open(env.Dir, cfg, env.FS)
	if err != nil {
		return err
	}
	closed := false
	defer func() {
		if !closed {
			_ = core.Safe(func() error { return db.Close() })
		}
	}()
	delta := ch.Int("delta", 0, 1) // MaxValueLength or MaxValueLength-1
	if !core.Thorough() {
		delta = 0 // the single quick case sits exactly on the limit
	}
	n := pogreb.MaxValueLength - delta
	kl := core.PickInt(ch, "klen", []int{0, 1, 65535})
	if !core.Thorough() {
		kl = 65535 // ... under the longest key: the largest record the format admits
	}
	k := []byte(c16Key(kl, 0))
	v := make([]byte, n)
	for i := 0; i < n; i += 4093 {
		v[i] = byte(i>>8) | 1
	}
	v[n-1] = 0x7e
	ch.Note("put klen=%d vlen=MaxValueLength-%d on %s", kl, delta, env.Kind)
	if err := core.Safe(func() error { return db.Put(k, v) }); err != nil {
		return fmt.Errorf("Put with a value of MaxValueLength-%d bytes failed: %v", delta, err)
	}
	check := func(db *pogreb.DB, when string) error {
		return core.Safe(func() error {
			got, err := db.Get(k)
			if err != nil {
				return fmt.Errorf("%s: Get failed: %v", when, err)
			}
			if !bytes.Equal(got, v) {
				return fmt.Errorf("%s: value of %d bytes did not round-trip (got %d bytes)", when, n, len(got))
			}
			if c := db.Count(); c != 1 {
				return fmt.Errorf("%s: Count=%d, want 1", when, c)
			}
			return nil
		})
	}
	if err := check(db, "same session"); err != nil {
		return err
	}
	db.VerifKill()
	closed = true
	dbx.ResetLog()
	db2, err := dbx.Open(env.Dir, cfg, env.FS)
	if err != nil {
		return fmt.Errorf("recovery with a %d-byte value failed: %v", n, err)
	}
	defer func() { _ = core.Safe(func() error { return db2.Close() }) }()
	if !dbx.RecoveryRan() {
		return fmt.Errorf("no recovery after kill")
	}
	if err := check(db2, "after recovery"); err != nil {
		return err
	}
	st.Eval(1)
	st.NontrivialSub(core.FingerprintOf(ch), 0)
	st.Count("values_at_the_limit", 1)
	st.Sample(map[string]interface{}{"key_len": kl, "value_len": n, "fs": env.Kind})
	return nil
}

func TestC16Giant(t *testing.T) { core.Run(t, "C16", "C16giant", propC16Giant) }
