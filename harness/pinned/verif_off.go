//go:build !verif

package pogreb

// Verification hooks are compiled out without the "verif" build tag.

func verifAdjustSeed(db *DB) {}

func verifCompactionYield(db *DB, point string) {}
