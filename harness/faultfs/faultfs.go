// Package faultfs is an in-memory pogreb FileSystem that records every mutating call so that
// process-crash and power-loss images can be materialised for any instant.
package faultfs

import (
	"fmt"
	"io"
	"os"
	"path/filepath"
	"sort"
	"sync"
	"time"

	pfs "github.com/akrylysov/pogreb/fs"
)

type Kind int

const (
	OpCreate Kind = iota
	OpWrite
	OpTruncate
	OpRename
	OpRemove
	OpSync
	OpMark
)

func (k Kind) String() string {
	return [...]string{"create", "write", "truncate", "rename", "remove", "sync", "mark"}[k]
}

type Op struct {
	Kind  Kind
	Path  string
	Path2 string
	Ino   int
	Off   int64
	Data  []byte
	Size  int64
	Mark  string
}

func (o Op) String() string {
	switch o.Kind {
	case OpCreate:
		return fmt.Sprintf("create %s ino=%d", filepath.Base(o.Path), o.Ino)
	case OpWrite:
		return fmt.Sprintf("write ino=%d off=%d len=%d", o.Ino, o.Off, len(o.Data))
	case OpTruncate:
		return fmt.Sprintf("truncate ino=%d size=%d", o.Ino, o.Size)
	case OpRename:
		return fmt.Sprintf("rename %s -> %s", filepath.Base(o.Path), filepath.Base(o.Path2))
	case OpRemove:
		return fmt.Sprintf("remove %s", filepath.Base(o.Path))
	case OpSync:
		return fmt.Sprintf("sync ino=%d", o.Ino)
	default:
		return "mark " + o.Mark
	}
}

type inode struct {
	id   int
	data []byte
}

// State is a plain file-system state: directory plus inode contents.
type State struct {
	Dir    map[string]int
	Inodes map[int][]byte
}

func NewState() *State {
	return &State{Dir: map[string]int{}, Inodes: map[int][]byte{}}
}

func (s *State) Clone() *State {
	c := NewState()
	for k, v := range s.Dir {
		c.Dir[k] = v
	}
	for k, v := range s.Inodes {
		c.Inodes[k] = append([]byte(nil), v...)
	}
	return c
}

// Files returns name -> content for linked files.
func (s *State) Files() map[string][]byte {
	out := map[string][]byte{}
	for name, ino := range s.Dir {
		out[name] = s.Inodes[ino]
	}
	return out
}

func applyData(data []byte, op Op, upto int64) []byte {
	switch op.Kind {
	case OpWrite:
		d := op.Data
		if upto >= 0 {
			d = d[:upto]
		}
		end := op.Off + int64(len(d))
		if int64(len(data)) < end {
			data = append(data, make([]byte, end-int64(len(data)))...)
		}
		copy(data[op.Off:end], d)
	case OpTruncate:
		if int64(len(data)) < op.Size {
			data = append(data, make([]byte, op.Size-int64(len(data)))...)
		} else {
			data = data[:op.Size]
		}
	}
	return data
}

// Apply applies one op fully.
func (s *State) Apply(op Op) {
	switch op.Kind {
	case OpCreate:
		s.Dir[op.Path] = op.Ino
		s.Inodes[op.Ino] = nil
	case OpWrite, OpTruncate:
		s.Inodes[op.Ino] = applyData(s.Inodes[op.Ino], op, -1)
	case OpRename:
		s.Dir[op.Path2] = s.Dir[op.Path]
		delete(s.Dir, op.Path)
	case OpRemove:
		delete(s.Dir, op.Path)
	}
}

// TearPoints returns the byte counts n (0 < n < len(Data)) at which a write may be cut: file offset Off+n is 512-aligned.
func TearPoints(op Op) []int64 {
	if op.Kind != OpWrite {
		return nil
	}
	var out []int64
	first := (op.Off/512 + 1) * 512
	for c := first; c < op.Off+int64(len(op.Data)); c += 512 {
		out = append(out, c-op.Off)
	}
	return out
}

// ApplyTorn applies the first n bytes of a write op.
func (s *State) ApplyTorn(op Op, n int64) {
	s.Inodes[op.Ino] = applyData(s.Inodes[op.Ino], op, n)
}

// FS is the recording file system.
type FS struct {
	mu      sync.Mutex
	st      *State
	nextIno int
	Log     []Op
	locks   map[string]bool

}

func New() *FS {
	return FromState(NewState())
}

// FromState makes a new FS whose initial content is st (copied). The log starts empty.
func FromState(st *State) *FS {
	c := st.Clone()
	max := 0
	for ino := range c.Inodes {
		if ino > max {
			max = ino
		}
	}
	return &FS{st: c, nextIno: max + 1, locks: map[string]bool{}}
}

// Adopt makes a new FS that takes ownership of st (no copy). The log starts empty.
func Adopt(st *State) *FS {
	max := 0
	for ino := range st.Inodes {
		if ino > max {
			max = ino
		}
	}
	return &FS{st: st, nextIno: max + 1, locks: map[string]bool{}}
}

// KillLocks forgets every held lock, as the death of the owning process does. Lock files stay.
func (fs *FS) KillLocks() {
	fs.mu.Lock()
	defer fs.mu.Unlock()
	fs.locks = map[string]bool{}
}

// Snapshot returns a copy of the current state.
func (fs *FS) Snapshot() *State {
	fs.mu.Lock()
	defer fs.mu.Unlock()
	return fs.st.Clone()
}

func (fs *FS) Mark(m string) {
	fs.mu.Lock()
	defer fs.mu.Unlock()
	fs.Log = append(fs.Log, Op{Kind: OpMark, Mark: m})
}

// LogCopy returns a copy of the op log (data slices are shared, they are never modified).
func (fs *FS) LogCopy() []Op {
	fs.mu.Lock()
	defer fs.mu.Unlock()
	return append([]Op(nil), fs.Log...)
}

// EnsureFile makes sure a (possibly empty) file exists in a state, e.g. a lock file.
func (s *State) EnsureFile(name string) {
	if _, ok := s.Dir[name]; ok {
		return
	}
	max := 0
	for ino := range s.Inodes {
		if ino > max {
			max = ino
		}
	}
	s.Dir[name] = max + 1
	s.Inodes[max+1] = nil
}

// SetFile sets the content of a file in a state.
func (s *State) SetFile(name string, data []byte) {
	s.EnsureFile(name)
	s.Inodes[s.Dir[name]] = data
}

// TotalBytes returns the number of bytes held by linked files.
func (s *State) TotalBytes() int64 {
	var n int64
	for _, ino := range s.Dir {
		n += int64(len(s.Inodes[ino]))
	}
	return n
}

func (fs *FS) LogLen() int {
	fs.mu.Lock()
	defer fs.mu.Unlock()
	return len(fs.Log)
}

func (fs *FS) record(op Op) {
	fs.Log = append(fs.Log, op)
	fs.st.Apply(op)
}

func (fs *FS) OpenFile(name string, flag int, perm os.FileMode) (pfs.File, error) {
	fs.mu.Lock()
	defer fs.mu.Unlock()
	name = filepath.Clean(name)
	if flag&os.O_APPEND != 0 {
		return nil, fmt.Errorf("append mode is not supported")
	}
	ino, ok := fs.st.Dir[name]
	if !ok {
		if flag&os.O_CREATE == 0 {
			return nil, &os.PathError{Op: "open", Path: name, Err: os.ErrNotExist}
		}
		ino = fs.nextIno
		fs.nextIno++
		fs.record(Op{Kind: OpCreate, Path: name, Ino: ino})
	} else if flag&os.O_TRUNC != 0 && len(fs.st.Inodes[ino]) > 0 {
		fs.record(Op{Kind: OpTruncate, Ino: ino, Size: 0})
	}
	return &file{fs: fs, ino: ino, name: name}, nil
}

func (fs *FS) Stat(name string) (os.FileInfo, error) {
	fs.mu.Lock()
	defer fs.mu.Unlock()
	name = filepath.Clean(name)
	ino, ok := fs.st.Dir[name]
	if !ok {
		return nil, &os.PathError{Op: "stat", Path: name, Err: os.ErrNotExist}
	}
	return &info{name: filepath.Base(name), size: int64(len(fs.st.Inodes[ino]))}, nil
}

func (fs *FS) Remove(name string) error {
	fs.mu.Lock()
	defer fs.mu.Unlock()
	name = filepath.Clean(name)
	if _, ok := fs.st.Dir[name]; !ok {
		return &os.PathError{Op: "remove", Path: name, Err: os.ErrNotExist}
	}
	fs.record(Op{Kind: OpRemove, Path: name})
	return nil
}

func (fs *FS) Rename(oldpath, newpath string) error {
	fs.mu.Lock()
	defer fs.mu.Unlock()
	oldpath, newpath = filepath.Clean(oldpath), filepath.Clean(newpath)
	if _, ok := fs.st.Dir[oldpath]; !ok {
		return &os.PathError{Op: "rename", Path: oldpath, Err: os.ErrNotExist}
	}
	fs.record(Op{Kind: OpRename, Path: oldpath, Path2: newpath})
	return nil
}

func (fs *FS) ReadDir(dir string) ([]os.DirEntry, error) {
	fs.mu.Lock()
	defer fs.mu.Unlock()
	dir = filepath.Clean(dir)
	var names []string
	for name := range fs.st.Dir {
		if filepath.Dir(name) == dir {
			names = append(names, name)
		}
	}
	sort.Strings(names)
	var out []os.DirEntry
	for _, name := range names {
		out = append(out, &info{name: filepath.Base(name), size: int64(len(fs.st.Inodes[fs.st.Dir[name]]))})
	}
	return out, nil
}

func (fs *FS) MkdirAll(path string, perm os.FileMode) error { return nil }

type lockFile struct {
	fs   *FS
	name string
}

func (fs *FS) CreateLockFile(name string, perm os.FileMode) (pfs.LockFile, bool, error) {
	fs.mu.Lock()
	defer fs.mu.Unlock()
	name = filepath.Clean(name)
	if fs.locks[name] {
		return nil, false, os.ErrExist
	}
	_, existed := fs.st.Dir[name]
	if !existed {
		ino := fs.nextIno
		fs.nextIno++
		fs.record(Op{Kind: OpCreate, Path: name, Ino: ino})
	}
	fs.locks[name] = true
	return &lockFile{fs: fs, name: name}, existed, nil
}

func (l *lockFile) Unlock() error {
	l.fs.mu.Lock()
	defer l.fs.mu.Unlock()
	if !l.fs.locks[l.name] {
		return os.ErrClosed
	}
	delete(l.fs.locks, l.name)
	if _, ok := l.fs.st.Dir[l.name]; ok {
		l.fs.record(Op{Kind: OpRemove, Path: l.name})
	}
	return nil
}

type file struct {
	fs     *FS
	ino    int
	name   string
	off    int64
	closed bool
}

func (f *file) data() []byte { return f.fs.st.Inodes[f.ino] }

func (f *file) Close() error {
	f.fs.mu.Lock()
	defer f.fs.mu.Unlock()
	if f.closed {
		return os.ErrClosed
	}
	f.closed = true
	return nil
}

func (f *file) readAt(p []byte, off int64) (int, error) {
	if f.closed {
		return 0, os.ErrClosed
	}
	d := f.data()
	if off >= int64(len(d)) {
		return 0, io.EOF
	}
	n := copy(p, d[off:])
	if n < len(p) {
		return n, io.EOF
	}
	return n, nil
}

func (f *file) ReadAt(p []byte, off int64) (int, error) {
	f.fs.mu.Lock()
	defer f.fs.mu.Unlock()
	return f.readAt(p, off)
}

func (f *file) Read(p []byte) (int, error) {
	f.fs.mu.Lock()
	defer f.fs.mu.Unlock()
	n, err := f.readAt(p, f.off)
	f.off += int64(n)
	if n > 0 {
		err = nil
	}
	return n, err
}

func (f *file) writeAt(p []byte, off int64) (int, error) {
	if f.closed {
		return 0, os.ErrClosed
	}
	f.fs.record(Op{Kind: OpWrite, Ino: f.ino, Off: off, Data: append([]byte(nil), p...)})
	return len(p), nil
}

func (f *file) WriteAt(p []byte, off int64) (int, error) {
	f.fs.mu.Lock()
	defer f.fs.mu.Unlock()
	return f.writeAt(p, off)
}

func (f *file) Write(p []byte) (int, error) {
	f.fs.mu.Lock()
	defer f.fs.mu.Unlock()
	n, err := f.writeAt(p, f.off)
	f.off += int64(n)
	return n, err
}

func (f *file) Seek(offset int64, whence int) (int64, error) {
	f.fs.mu.Lock()
	defer f.fs.mu.Unlock()
	if f.closed {
		return 0, os.ErrClosed
	}
	switch whence {
	case io.SeekStart:
		f.off = offset
	case io.SeekCurrent:
		f.off += offset
	case io.SeekEnd:
		f.off = int64(len(f.data())) + offset
	}
	return f.off, nil
}

func (f *file) Stat() (os.FileInfo, error) {
	f.fs.mu.Lock()
	defer f.fs.mu.Unlock()
	if f.closed {
		return nil, os.ErrClosed
	}
	return &info{name: filepath.Base(f.name), size: int64(len(f.data()))}, nil
}

func (f *file) Sync() error {
	f.fs.mu.Lock()
	defer f.fs.mu.Unlock()
	if f.closed {
		return os.ErrClosed
	}
	f.fs.record(Op{Kind: OpSync, Ino: f.ino})
	return nil
}

func (f *file) Truncate(size int64) error {
	f.fs.mu.Lock()
	defer f.fs.mu.Unlock()
	if f.closed {
		return os.ErrClosed
	}
	f.fs.record(Op{Kind: OpTruncate, Ino: f.ino, Size: size})
	return nil
}

func (f *file) Slice(start, end int64) ([]byte, error) {
	f.fs.mu.Lock()
	defer f.fs.mu.Unlock()
	if f.closed {
		return nil, os.ErrClosed
	}
	d := f.data()
	if end > int64(len(d)) {
		return nil, io.EOF
	}
	return append([]byte(nil), d[start:end]...), nil
}

type info struct {
	name string
	size int64
}

func (i *info) Name() string               { return i.name }
func (i *info) Size() int64                { return i.size }
func (i *info) Mode() os.FileMode          { return 0640 }
func (i *info) ModTime() time.Time         { return time.Time{} }
func (i *info) IsDir() bool                { return false }
func (i *info) Sys() interface{}           { return nil }
func (i *info) Type() os.FileMode          { return 0 }
func (i *info) Info() (os.FileInfo, error) { return i, nil }

var _ pfs.FileSystem = &FS{}

// PowerLossImage builds the state after a power failure at instant p (ops[0:p] issued) on top of base,
// which is assumed durable. Directory ops are durable and ordered; for every inode the data ops issued
// since its last Sync survive only as a prefix chosen by choose(ino, lo, hi) in [lo,hi]; tear(op) may cut
// the first lost write at a 512-aligned offset (return 0 for none).
func PowerLossImage(base *State, log []Op, p int, choose func(ino, lo, hi int) int, tear func(op Op, points []int64) int64) *State {
	st := base.Clone()
	type pend struct{ ops []Op }
	pending := map[int]*pend{}
	var order []int
	for i := 0; i < p; i++ {
		op := log[i]
		switch op.Kind {
		case OpCreate:
			st.Apply(op)
		case OpRename, OpRemove:
			st.Apply(op)
		case OpWrite, OpTruncate:
			pe := pending[op.Ino]
			if pe == nil {
				pe = &pend{}
				pending[op.Ino] = pe
				order = append(order, op.Ino)
			}
			pe.ops = append(pe.ops, op)
		case OpSync:
			if pe := pending[op.Ino]; pe != nil {
				for _, o := range pe.ops {
					st.Apply(o)
				}
				pe.ops = nil
			}
		}
	}
	for _, ino := range order {
		pe := pending[ino]
		if len(pe.ops) == 0 {
			continue
		}
		k := choose(ino, 0, len(pe.ops))
		for _, o := range pe.ops[:k] {
			st.Apply(o)
		}
		if k < len(pe.ops) {
			if tp := TearPoints(pe.ops[k]); len(tp) > 0 {
				if n := tear(pe.ops[k], tp); n > 0 {
					st.ApplyTorn(pe.ops[k], n)
				}
			}
		}
	}
	return st
}
