package checks

import (
	"fmt"
	"testing"

	"verif/harness/core"
	"verif/harness/dbx"
	"verif/harness/faultfs"
)

// enumerateCrashPoints checks every process-crash image of the recorded log on top of base:
// every log position and, for each data write, every 512-aligned tear.
// only, when non-nil, restricts the positions that are checked.
func enumerateCrashPoints(ch core.Chooser, st *core.Stats, s *fsess, base *faultfs.State, startState int, only func(p int, w *logWalker) bool, prop string) error {
	log := s.fs.LogCopy()
	cur := base.Clone()
	w := newLogWalker(startState)
	fp := core.FingerprintOf(ch)
	for p := 0; p <= len(log); p++ {
		check := p == 0 || log[p-1].Kind != faultfs.OpMark
		if only != nil && !only(p, w) {
			check = false
		}
		allowed := []map[string]string{s.states[w.lo]}
		if w.hi != w.lo {
			allowed = append(allowed, s.states[w.hi])
		}
		ctx := w.context()
		desc := func(torn int64) string {
			d := fmt.Sprintf("process crash after %d of %d file-system operations (in flight: %s)", p, len(log), ctx)
			if p < len(log) {
				d += ", next op: " + log[p].String()
			}
			if torn > 0 {
				d += fmt.Sprintf(", torn after %d bytes", torn)
			}
			return d
		}
		if check {
			if _, err := checkImage(cur.Clone(), s.cfg, s.ukeys, allowed, desc(0)); err != nil {
				return err
			}
			st.Eval(1)
			st.Count("crash_in_"+ctx, 1)
			if ctx != "idle" && !s.trivialHistory {
				st.NontrivialSub(fp, p*64)
			}
		}
		if p == len(log) {
			break
		}
		op := log[p]
		if only == nil || only(p, w) {
			for ti, n := range faultfs.TearPoints(op) {
				torn := cur.Clone()
				torn.ApplyTorn(op, n)
				if _, err := checkImage(torn, s.cfg, s.ukeys, allowed, desc(n)); err != nil {
					return err
				}
				st.Eval(1)
				st.Count("crash_torn_write", 1)
				if !s.trivialHistory {
					st.NontrivialSub(fp, p*64+ti+1)
				}
			}
		}
		w.see(op)
		cur.Apply(op)
	}
	return nil
}

// C03: process crash at any instant.
func propC03(ch core.Chooser, st *core.Stats) error {
	_, ukeys := drawUniverse(ch)
	cfg := dbx.DrawConfig(ch, []int{600, 1024, 2048, 4096})
	cfg.SyncWrites = core.Pct(ch, "syncwrites", 10)
	s := newFsess(ch, st, nil, cfg, ukeys, map[string]string{})
	s.oversize = core.Pct(ch, "oversize", 25)
	ch.Note("config: %s universe=%d keys oversize=%v", cfg, len(ukeys), s.oversize)
	if err := s.open(); err != nil {
		return err
	}
	n := ch.Int("nops", 1, core.Scale(30, 120))
	if err := s.runOps(n, []int{8, 4, 2, 1, 1, 1, 1, 1}); err != nil {
		return err
	}
	if core.Bool(ch, "finalclose") {
		if err := s.closeDB(); err != nil {
			return err
		}
	}
	st.Count("histories", 1)
	st.Count("fs_ops", int64(s.fs.LogLen()))
	st.Count("compactions_removing_segments", int64(s.compactedSegs))
	if st.WantSample() && s.compactedSegs > 0 {
		st.Sample(map[string]interface{}{"history": core.NotesOf(ch, 50), "fs_log_length": s.fs.LogLen(), "checked": "every log position and every 512-aligned tear of every write"})
	}
	return enumerateCrashPoints(ch, st, s, faultfs.NewState(), 0, nil, "C03")
}

func TestC03(t *testing.T) { core.Run(t, "C03", "C03", propC03) }
