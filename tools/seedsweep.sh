#!/bin/bash
# Runs every seeded change (seeded/Sxx-Cyy) against the checks listed in its meta.json
# (detected_by_quick_checks) and prints one line per (seed, check): CAUGHT / MISSED.
# The first failing case of each caught pair is copied to $OUT/corpus/<ID>/<Sxx>.json
# (regression input for the current generator version; copy into /verif/corpus to adopt).
#   tools/seedsweep.sh [Sxx ...]        default: all;  OUT defaults to /dev/shm/seedsweep
# Several sweeps over disjoint seeds may run side by side when each has its own ALT directory
# (ALT=/dev/shm/sweepA tools/seedsweep.sh S01 S02 ... &).
set -u
export GOFLAGS=-mod=mod GOPROXY=off GOSUMDB=off GOTOOLCHAIN=local
cd /verif
OUT=${OUT:-/dev/shm/seedsweep}
ALT=${ALT:-/dev/shm}
export VERIF_ALT_BASE=$ALT
mkdir -p $OUT/corpus /tmp/wt $ALT
sel="$*"
for d in seeded/S*; do
  sid=$(basename $d | cut -d- -f1)
  if [ -n "$sel" ] && ! echo " $sel " | grep -q " $sid "; then continue; fi
  checks=$(python3 -c "import json;print(' '.join(json.load(open('$d/meta.json'))['detected_by_quick_checks']))")
  # OWN=1: only the first listed check (the check of the property the change was written against)
  if [ -n "${OWN:-}" ]; then checks=$(echo $checks | cut -d' ' -f1); fi
  wt=/tmp/wt/sweep-$sid
  git -C /repo worktree remove --force $wt >/dev/null 2>&1
  git -C /repo worktree add -q --detach $wt HEAD || { echo "$sid worktree failed"; continue; }
  if ! git -C $wt apply $(realpath $d)/patch.diff; then echo "$sid PATCH-DOES-NOT-APPLY"; git -C /repo worktree remove --force $wt; continue; fi
  for c in $checks; do
    rm -rf $ALT/verif-alt-failures/$c
    out=$(VERIF_REPO=$wt VERIF_SEED=${VERIF_SEED:-1} ./check $c ${MUT_TIER:-quick} 2>&1)
    if echo "$out" | grep -q "^VIOLATION"; then
      f=$(echo "$out" | grep -m1 "^VIOLATION" | sed 's/.*replay=//')
      mkdir -p $OUT/corpus/$c
      case "$f" in *.json) cp "$f" $OUT/corpus/$c/$sid.json;; esac
      echo "$sid $c CAUGHT $(echo "$out" | grep -A1 -m1 '^VIOLATION' | tail -1 | cut -c1-160)"
    elif echo "$out" | grep -q "^OK"; then
      echo "$sid $c MISSED"
    else
      echo "$sid $c INCONCLUSIVE $(echo "$out" | grep -m1 INCONCLUSIVE | cut -c1-200)"
    fi
  done
  git -C /repo worktree remove --force $wt
done
