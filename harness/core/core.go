// Package core holds what every check shares: the Chooser abstraction (all random choices go
// through rapid generators and are recorded so that a failing case can be replayed without the
// library), the statistics/evidence collector and the test runner.
package core

import (
	"encoding/binary"
	"encoding/json"
	"fmt"
	"hash/fnv"
	"os"
	"path/filepath"
	"runtime/debug"
	"sort"
	"strconv"
	"strings"
	"sync"
	"testing"
	"time"

	"pgregory.net/rapid"
)

// Chooser is the only source of nondeterminism of a property.
type Chooser interface {
	// Int returns a value in [lo, hi].
	Int(label string, lo, hi int) int
	// Note appends a human readable line to the description of the case.
	Note(format string, args ...interface{})
}

// Case is a recorded case: the sequence of draws plus a readable description.
type Case struct {
	Property string   `json:"property"`
	Check    string   `json:"check"`
	Tier     string   `json:"tier"`
	Error    string   `json:"error,omitempty"`
	Draws    []int64  `json:"draws"`
	Notes    []string `json:"notes"`
}

type recorder struct {
	draws []int64
	notes []string
}

func (r *recorder) Note(format string, args ...interface{}) {
	if len(r.notes) < 4000 {
		r.notes = append(r.notes, fmt.Sprintf(format, args...))
	}
}

// Fingerprint is a 64-bit hash of the draws made so far.
func (r *recorder) Fingerprint() uint64 {
	h := fnv.New64a()
	var b [8]byte
	for _, d := range r.draws {
		binary.LittleEndian.PutUint64(b[:], uint64(d))
		h.Write(b[:])
	}
	return h.Sum64()
}

type rapidChooser struct {
	recorder
	t *rapid.T
}

func (c *rapidChooser) Int(label string, lo, hi int) int {
	if hi < lo {
		panic(fmt.Sprintf("harness bug: empty range for %s: [%d,%d]", label, lo, hi))
	}
	v := lo
	if hi > lo {
		v = rapid.IntRange(lo, hi).Draw(c.t, label)
	}
	c.draws = append(c.draws, int64(v))
	return v
}

type replayChooser struct {
	recorder
	in  []int64
	pos int
}

func (c *replayChooser) Int(label string, lo, hi int) int {
	v := lo
	if c.pos < len(c.in) {
		v = int(c.in[c.pos])
		c.pos++
	}
	if v < lo {
		v = lo
	}
	if v > hi {
		v = hi
	}
	c.draws = append(c.draws, int64(v))
	return v
}

// Fingerprinter is implemented by both choosers.
type Fingerprinter interface{ Fingerprint() uint64 }

// Helpers on top of Chooser.

func Bool(ch Chooser, label string) bool { return ch.Int(label, 0, 1) == 1 }

// Pct returns true with roughly the given percentage.
func Pct(ch Chooser, label string, pct int) bool { return ch.Int(label, 0, 99) < pct }

func PickInt(ch Chooser, label string, from []int) int { return from[ch.Int(label, 0, len(from)-1)] }

func PickStr(ch Chooser, label string, from []string) string {
	return from[ch.Int(label, 0, len(from)-1)]
}

// Weighted returns an index drawn with the given weights.
func Weighted(ch Chooser, label string, weights []int) int {
	total := 0
	for _, w := range weights {
		total += w
	}
	v := ch.Int(label, 0, total-1)
	for i, w := range weights {
		if v < w {
			return i
		}
		v -= w
	}
	return len(weights) - 1
}

// Stats collects what a run covered.
type Stats struct {
	mu          sync.Mutex
	Evaluations int64
	Counters    map[string]int64
	nontrivial  map[uint64]struct{}
	Samples     []interface{}
	maxSamples  int
	Excluded    map[string]int64
	Known       map[string]int64 // known findings reproduced: key -> count
}

func NewStats() *Stats {
	return &Stats{Counters: map[string]int64{}, nontrivial: map[uint64]struct{}{}, maxSamples: 4, Excluded: map[string]int64{}, Known: map[string]int64{}}
}

func (s *Stats) Eval(n int64) { s.mu.Lock(); s.Evaluations += n; s.mu.Unlock() }

func (s *Stats) Count(name string, n int64) {
	s.mu.Lock()
	s.Counters[name] += n
	s.mu.Unlock()
}

func (s *Stats) Exclude(name string) { s.mu.Lock(); s.Excluded[name]++; s.mu.Unlock() }

func (s *Stats) KnownFinding(key string) { s.mu.Lock(); s.Known[key]++; s.mu.Unlock() }

// Nontrivial registers one non-trivial case identified by the given 64-bit identity.
func (s *Stats) Nontrivial(id uint64) {
	s.mu.Lock()
	s.nontrivial[id] = struct{}{}
	s.mu.Unlock()
}

// NontrivialSub registers a non-trivial sub case (e.g. crash point k of history id).
func (s *Stats) NontrivialSub(id uint64, sub int) {
	s.Nontrivial(id*1099511628211 ^ uint64(sub)*0x9E3779B97F4A7C15)
}

// Sample keeps a few written-out cases.
func (s *Stats) Sample(v interface{}) {
	s.mu.Lock()
	defer s.mu.Unlock()
	if len(s.Samples) < s.maxSamples {
		s.Samples = append(s.Samples, v)
	}
}

func (s *Stats) WantSample() bool {
	s.mu.Lock()
	defer s.mu.Unlock()
	return len(s.Samples) < s.maxSamples
}

type partial struct {
	Check       string           `json:"check"`
	Evaluations int64            `json:"evaluations"`
	Counters    map[string]int64 `json:"counters"`
	Samples     []interface{}    `json:"samples"`
	Excluded    map[string]int64 `json:"excluded_known"`
	Known       map[string]int64 `json:"known_findings"`
	Nontrivial  int              `json:"nontrivial_local"`
	WallS       float64          `json:"wall_s"`
	Failed      bool             `json:"failed"`
	RapidSeed   string           `json:"rapid_seed"`
}

func outDir() string {
	d := os.Getenv("VERIF_OUT")
	if d == "" {
		d = os.TempDir()
	}
	return d
}

func shard() string {
	s := os.Getenv("VERIF_SHARD")
	if s == "" {
		s = "0"
	}
	return s
}

// Tier returns "quick" or "thorough".
func Tier() string {
	if os.Getenv("VERIF_TIER") == "thorough" {
		return "thorough"
	}
	return "quick"
}

// Thorough reports whether the thorough tier is running.
func Thorough() bool { return Tier() == "thorough" }

// Scale returns q in the quick tier and th in the thorough tier.
func Scale(q, th int) int {
	if Thorough() {
		return th
	}
	return q
}

func (s *Stats) write(check string, start time.Time, failed bool) {
	s.mu.Lock()
	defer s.mu.Unlock()
	p := partial{Check: check, Evaluations: s.Evaluations, Counters: s.Counters, Samples: s.Samples, Excluded: s.Excluded,
		Known: s.Known, Nontrivial: len(s.nontrivial), WallS: time.Since(start).Seconds(), Failed: failed, RapidSeed: os.Getenv("VERIF_RAPID_SEED")}
	base := filepath.Join(outDir(), fmt.Sprintf("%s.%s", check, shard()))
	b, _ := json.Marshal(p)
	_ = os.WriteFile(base+".stats.json", b, 0644)
	ids := make([]uint64, 0, len(s.nontrivial))
	for id := range s.nontrivial {
		ids = append(ids, id)
	}
	sort.Slice(ids, func(i, j int) bool { return ids[i] < ids[j] })
	buf := make([]byte, 8*len(ids))
	for i, id := range ids {
		binary.LittleEndian.PutUint64(buf[8*i:], id)
	}
	_ = os.WriteFile(base+".nt", buf, 0644)
}

// Prop is a property over a chooser. It returns an error describing the violation, if any.
// A *Skip error means the case is outside the domain (counted, never a violation).
type Prop func(ch Chooser, st *Stats) error

// Violation is an error with a known-finding signature.
type Violation struct {
	Key string // signature used to match known findings ("" = none)
	Msg string
}

func (v *Violation) Error() string { return v.Msg }

func Violationf(key, format string, args ...interface{}) error {
	return &Violation{Key: key, Msg: fmt.Sprintf(format, args...)}
}

// Inconclusive is returned by a property when the harness itself could not proceed
// (never a verdict about the code under test).
type Inconclusive struct{ Msg string }

func (e *Inconclusive) Error() string { return "inconclusive: " + e.Msg }

// HarnessBug is a failed self-check of the harness. The run ends without a saved case: the
// driver reports it as inconclusive (exit 2), never as a violation.
type HarnessBug struct{ Msg string }

func (e *HarnessBug) Error() string { return "harness bug (inconclusive): " + e.Msg }

// faultsAreViolations is set by SafeFault for the duration of f.
var faultsAreViolations bool

// SafeFault is Safe for code that deliberately touches memory handed out by pogreb (retained
// result slices): a fault or panic there is a violation although no pogreb frame is on the stack.
// Single-goroutine use only.
func SafeFault(f func() error) error {
	old := faultsAreViolations
	faultsAreViolations = true
	defer func() { faultsAreViolations = old }()
	return Safe(f)
}

// Safe runs f and converts a panic into an error (with stack).
func Safe(f func() error) (err error) {
	defer func() {
		if r := recover(); r != nil {
			if tn := fmt.Sprintf("%T", r); strings.HasPrefix(tn, "rapid.") || strings.HasPrefix(tn, "*rapid.") {
				panic(r) // rapid's own control flow (invalid data, stop test): not ours to catch
			}
			stack := debug.Stack()
			if msg := fmt.Sprint(r); strings.HasPrefix(msg, "harness bug") || strings.Contains(msg, "HARNESS-HEALTH") {
				// an assertion of the harness about itself: never a verdict about pogreb
				err = &HarnessBug{Msg: msg + "\n" + trimStack(stack)}
				return
			}
			if !faultsAreViolations && !strings.Contains(string(stack), "github.com/akrylysov/pogreb") {
				// the panic did not pass through a single pogreb function: it is the harness's own
				err = &HarnessBug{Msg: fmt.Sprintf("panic outside pogreb: %v\n%s", r, trimStack(stack))}
				return
			}
			err = fmt.Errorf("panic: %v\n%s", r, trimStack(stack))
		}
	}()
	return f()
}

func trimStack(b []byte) string {
	lines := strings.Split(string(b), "\n")
	if len(lines) > 40 {
		lines = lines[:40]
	}
	return strings.Join(lines, "\n")
}

func saveCase(property, check string, rec *recorder, err error) string {
	c := Case{Property: property, Check: check, Tier: Tier(), Error: err.Error(), Draws: rec.draws, Notes: rec.notes}
	if len(c.Error) > 6000 {
		c.Error = c.Error[:6000]
	}
	b, _ := json.MarshalIndent(c, "", " ")
	p := filepath.Join(outDir(), fmt.Sprintf("%s.%s.fail.json", check, shard()))
	_ = os.WriteFile(p, b, 0644)
	return p
}

// LoadCase reads a replay file.
func LoadCase(path string) (*Case, error) {
	b, err := os.ReadFile(path)
	if err != nil {
		return nil, err
	}
	c := &Case{}
	if err := json.Unmarshal(b, c); err != nil {
		return nil, err
	}
	return c, nil
}

// Run executes a property: as a replay of VERIF_REPLAY when that names a case of this check,
// otherwise as a rapid search. check is the name of the sub check (one property may have several).
func Run(t *testing.T, property, check string, prop Prop) {
	// a fault in memory-mapped file data (fs.OSMMap) becomes a panic of this goroutine, which
	// Safe turns into a violation with a saved case instead of a dead test binary
	debug.SetPanicOnFault(true)
	st := NewStats()
	start := time.Now()
	failed := false
	defer func() { st.write(check, start, failed || t.Failed()) }()

	wrapped := func(ch Chooser) (err error) {
		return Safe(func() error { return prop(ch, st) })
	}

	if rp := os.Getenv("VERIF_REPLAY"); rp != "" {
		c, err := LoadCase(rp)
		if err != nil {
			t.Fatalf("cannot load replay file: %v", err)
		}
		if c.Check != check {
			t.Skipf("replay file is for check %s", c.Check)
		}
		ch := &replayChooser{in: c.Draws}
		if err := wrapped(ch); err != nil {
			if _, ok := err.(*Inconclusive); ok {
				t.Skipf("%v", err)
			}
			if _, ok := err.(*HarnessBug); ok {
				t.Skipf("INCONCLUSIVE: %v", err)
			}
			failed = true
			saveCase(property, check, &ch.recorder, err)
			t.Fatalf("REPLAY-VIOLATION property=%s check=%s: %v\nnotes:\n%s", property, check, err, strings.Join(tail(ch.notes, 60), "\n"))
		}
		t.Logf("replay passed (%d draws)", len(ch.draws))
		return
	}

	rapid.Check(t, func(rt *rapid.T) {
		ch := &rapidChooser{t: rt}
		err := wrapped(ch)
		if err == nil {
			return
		}
		if inc, ok := err.(*Inconclusive); ok {
			rt.Skipf("%v", inc)
		}
		if hb, ok := err.(*HarnessBug); ok {
			rt.Fatalf("INCONCLUSIVE: %v", hb)
		}
		failed = true
		p := saveCase(property, check, &ch.recorder, err)
		rt.Fatalf("property %s (%s) violated: %v\ncase saved to %s", property, check, firstLines(err.Error(), 30), p)
	})
}

// RunEnum executes a property on an explicitly enumerated list of cases (each case is the list
// of draws handed to the property; draws the case does not supply take the lower bound of their
// range). Used where the input space is a finite corpus that is to be covered exhaustively rather
// than sampled. Failures are saved in the same replay format as Run's.
func RunEnum(t *testing.T, property, check string, cases [][]int64, prop Prop) {
	debug.SetPanicOnFault(true)
	st := NewStats()
	start := time.Now()
	failed := false
	defer func() { st.write(check, start, failed || t.Failed()) }()
	run := func(draws []int64) (*replayChooser, error) {
		ch := &replayChooser{in: draws}
		return ch, Safe(func() error { return prop(ch, st) })
	}
	if rp := os.Getenv("VERIF_REPLAY"); rp != "" {
		c, err := LoadCase(rp)
		if err != nil {
			t.Fatalf("cannot load replay file: %v", err)
		}
		if c.Check != check {
			t.Skipf("replay file is for check %s", c.Check)
		}
		ch, err := run(c.Draws)
		if err != nil {
			if _, ok := err.(*Inconclusive); ok {
				t.Skipf("%v", err)
			}
			if _, ok := err.(*HarnessBug); ok {
				t.Skipf("INCONCLUSIVE: %v", err)
			}
			failed = true
			saveCase(property, check, &ch.recorder, err)
			t.Fatalf("REPLAY-VIOLATION property=%s check=%s: %v\nnotes:\n%s", property, check, err, strings.Join(tail(ch.notes, 60), "\n"))
		}
		t.Logf("replay passed (%d draws)", len(ch.draws))
		return
	}
	for _, draws := range cases {
		ch, err := run(draws)
		if err == nil {
			continue
		}
		if _, ok := err.(*Inconclusive); ok {
			t.Fatalf("inconclusive: %v", err)
		}
		if _, ok := err.(*HarnessBug); ok {
			t.Fatalf("INCONCLUSIVE: %v", err)
		}
		failed = true
		p := saveCase(property, check, &ch.recorder, err)
		t.Fatalf("property %s (%s) violated: %v\ncase saved to %s", property, check, firstLines(err.Error(), 30), p)
	}
}

func tail(s []string, n int) []string {
	if len(s) > n {
		return s[len(s)-n:]
	}
	return s
}

func firstLines(s string, n int) string {
	l := strings.Split(s, "\n")
	if len(l) > n {
		l = l[:n]
	}
	return strings.Join(l, "\n")
}

// FingerprintOf returns the fingerprint of the draws made so far.
func FingerprintOf(ch Chooser) uint64 {
	if f, ok := ch.(Fingerprinter); ok {
		return f.Fingerprint()
	}
	return 0
}

// NotesOf returns the notes recorded so far (for samples).
func NotesOf(ch Chooser, max int) []string {
	var n []string
	switch c := ch.(type) {
	case *rapidChooser:
		n = c.notes
	case *replayChooser:
		n = c.notes
	}
	if len(n) > max {
		out := append([]string{}, n[:max]...)
		return append(out, fmt.Sprintf("... (%d more lines)", len(n)-max))
	}
	return append([]string{}, n...)
}

// EnvInt reads an integer from the environment.
func EnvInt(name string, def int) int {
	if v := os.Getenv(name); v != "" {
		if n, err := strconv.Atoi(v); err == nil {
			return n
		}
	}
	return def
}

// seqChooser is a deterministic pseudo-random chooser (LCG), used only for one-time artefact
// generation (the golden corpus), never inside a property.
type seqChooser struct {
	recorder
	x uint64
}

// NewSeqChooser returns a deterministic chooser for a seed.
func NewSeqChooser(seed uint64) Chooser { return &seqChooser{x: seed*2862933555777941757 + 3037000493} }

func (c *seqChooser) Int(label string, lo, hi int) int {
	c.x = c.x*6364136223846793005 + 1442695040888963407
	v := lo
	if hi > lo {
		v = lo + int((c.x>>33)%uint64(hi-lo+1))
	}
	c.draws = append(c.draws, int64(v))
	return v
}

// HashBytes is a 64-bit FNV-1a hash.
func HashBytes(b []byte) uint64 {
	h := fnv.New64a()
	h.Write(b)
	return h.Sum64()
}
