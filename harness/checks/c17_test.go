package checks

import (
	"bytes"
	"fmt"
	"io"
	"os"
	"path/filepath"
	"sort"
	"strings"
	"testing"

	"github.com/akrylysov/pogreb"
	pfs "github.com/akrylysov/pogreb/fs"

	"verif/harness/core"
	"verif/harness/dbx"
)

type dstep struct {
	kind string
	k    string
	vlen int
	torn []byte
}

var c17KeyLens = []int{0, 1, 2, 3, 4, 5, 8, 8, 8, 16, 255, 256, 65534, 65535, 65536}

func drawProgram(ch core.Chooser) []dstep {
	n := ch.Int("steps", 1, core.Scale(40, 120))
	var steps []dstep
	kinds := []string{"put", "put", "put", "put", "get", "has", "del", "del", "compact", "reopen", "crash", "count", "items", "sync", "iternew", "iternext", "iternext"}
	for i := 0; i < n; i++ {
		s := dstep{kind: kinds[ch.Int("kind", 0, len(kinds)-1)]}
		kl := core.PickInt(ch, "klen", c17KeyLens)
		kc := ch.Int("kchar", 0, 3)
		s.k = string(bytes.Repeat([]byte{byte('a' + kc)}, kl))
		s.vlen = core.PickInt(ch, "vlen", []int{0, 1, 20, 100, 490, 500, 506, 512, 1000, 4086, 4090, 4096})
		if core.Pct(ch, "bigvalue", 6) {
			// a single record that is larger than anything written before (a file that more
			// than doubles in one step)
			s.vlen = core.PickInt(ch, "bigvlen", []int{70000, 140000, 300000, 1100000})
		}
		if s.kind == "crash" {
			s.torn = fillBytes(ch, core.PickInt(ch, "tornlen", []int{0, 1, 5, 6, 9, 20, 600}))
		}
		steps = append(steps, s)
	}
	return steps
}

// runProgram executes the program on one file system and returns the per-call results and the
// final bytes of the segment files.
func runProgram(env *Env, cfg dbx.Config, steps []dstep) (results []string, segs map[string][]byte, recoveries int, truncations int, removed int, err error) {
	db, oerr := dbx.Open(env.Dir, cfg, env.FS)
	if oerr != nil {
		return nil, nil, 0, 0, 0, oerr
	}
	defer func() {
		if db != nil {
			_ = core.Safe(func() error { return db.Close() })
		}
	}()
	rec := func(f string, a ...interface{}) { results = append(results, fmt.Sprintf(f, a...)) }
	model := map[string]string{}
	// a long-lived iterator that is advanced a few pairs at a time between the other operations
	// (its queued items may refer to segments that compaction removes in between)
	var iter *pogreb.ItemIterator
	for i, s := range steps {
		if s.kind == "reopen" || s.kind == "crash" || s.kind == "crashbac" {
			iter = nil
		}
		e := core.Safe(func() error {
			switch s.kind {
			case "put":
				v := mkValue(i, s.vlen)
				err := db.Put([]byte(s.k), []byte(v))
				rec("%d put err=%v", i, err != nil)
				if (err != nil) != (len(s.k) > pogreb.MaxKeyLength) {
					return fmt.Errorf("Put with a %d-byte key: error %v", len(s.k), err)
				}
				if err == nil {
					model[s.k] = v
				}
			case "get":
				v, err := db.Get([]byte(s.k))
				rec("%d get len=%d nil=%v err=%v sum=%x", i, len(v), v == nil, err != nil, sum(v))
				if want, ok := model[s.k]; err != nil || ok != (v != nil) || string(v) != want {
					return fmt.Errorf("Get(%d-byte key) = %s, %v; reference %s present=%v", len(s.k), dbx.V(string(v)), err, dbx.V(want), ok)
				}
			case "has":
				h, err := db.Has([]byte(s.k))
				rec("%d has %v err=%v", i, h, err != nil)
				if _, ok := model[s.k]; err != nil || ok != h {
					return fmt.Errorf("Has(%d-byte key) = %v, %v; reference %v", len(s.k), h, err, ok)
				}
			case "del":
				err := db.Delete([]byte(s.k))
				rec("%d del err=%v", i, err != nil)
				if err != nil {
					return fmt.Errorf("Delete failed: %v", err)
				}
				delete(model, s.k)
			case "compact":
				cr, err := db.Compact()
				rec("%d compact %+v err=%v", i, cr, err != nil)
				if err != nil {
					return fmt.Errorf("Compact failed: %v", err)
				}
				removed += cr.CompactedSegments
			case "sync":
				err := db.Sync()
				rec("%d sync err=%v", i, err != nil)
				if err != nil {
					return fmt.Errorf("Sync failed: %v", err)
				}
			case "count":
				c := db.Count()
				rec("%d count %d", i, c)
				if int(c) != len(model) {
					return fmt.Errorf("Count=%d, reference %d", c, len(model))
				}
			case "items":
				got, err := dbx.Dump(db)
				if err != nil {
					return err
				}
				rec("%d items %d", i, len(got))
				if !dbx.Equal(got, model) {
					return fmt.Errorf("Items: %s", dbx.Diff(got, model))
				}
			case "iternew":
				iter = db.Items()
				rec("%d iternew", i)
			case "iternext":
				if iter == nil {
					iter = db.Items()
				}
				for j, n := 0, 1+s.vlen%5; j < n; j++ {
					k, v, err := iter.Next()
					if err == pogreb.ErrIterationDone {
						rec("%d iternext done", i)
						break
					}
					rec("%d iternext klen=%d ksum=%x vlen=%d vsum=%x err=%v", i, len(k), sum(k), len(v), sum(v), err != nil)
					if err != nil {
						return fmt.Errorf("ItemIterator.Next failed: %v", err)
					}
				}
			case "reopen":
				if err := db.Close(); err != nil {
					db = nil
					return fmt.Errorf("Close failed: %v", err)
				}
				var err error
				db, err = pogreb.Open(env.Dir, cfg.Options(env.FS))
				rec("%d reopen err=%v", i, err != nil)
				if err != nil {
					db = nil
					return fmt.Errorf("reopen failed: %v", err)
				}
			case "crash", "crashbac":
				db.VerifKill()
				db = nil
				if s.kind == "crashbac" {
					// what a recovery leaves behind that died between rebuilding the index and
					// removing its backups: every non-segment file X next to a stale X.bac
					if err := plantBackups(env); err != nil {
						return &core.Inconclusive{Msg: err.Error()}
					}
				}
				// simulated unclean shutdown: a torn tail is appended to the newest segment
				// through the file system's own API
				entries, err := env.FS.ReadDir(env.Dir)
				if err != nil {
					return &core.Inconclusive{Msg: err.Error()}
				}
				var names []string
				for _, de := range entries {
					if strings.HasSuffix(de.Name(), ".psg") {
						names = append(names, de.Name())
					}
				}
				sort.Slice(names, func(a, b int) bool { return segSeq(names[a]) < segSeq(names[b]) })
				if len(names) > 0 && len(s.torn) > 0 {
					f, err := env.FS.OpenFile(filepath.Join(env.Dir, names[len(names)-1]), os.O_RDWR, 0)
					if err != nil {
						return &core.Inconclusive{Msg: err.Error()}
					}
					if _, err := f.Seek(0, io.SeekEnd); err != nil {
						return &core.Inconclusive{Msg: err.Error()}
					}
					if _, err := f.Write(s.torn); err != nil {
						return &core.Inconclusive{Msg: err.Error()}
					}
					_ = f.Close()
					truncations++
				}
				dbx.ResetLog()
				db, err = pogreb.Open(env.Dir, cfg.Options(env.FS))
				rec("%d recover err=%v", i, err != nil)
				if err != nil {
					db = nil
					return fmt.Errorf("recovery failed: %v", err)
				}
				if !dbx.RecoveryRan() {
					return fmt.Errorf("no recovery after an unclean shutdown")
				}
				recoveries++
			}
			return nil
		})
		if e != nil {
			return results, nil, recoveries, truncations, removed, fmt.Errorf("step %d (%s): %v", i, s.kind, e)
		}
	}
	got, derr := dbx.Dump(db)
	if derr != nil {
		return results, nil, recoveries, truncations, removed, derr
	}
	if !dbx.Equal(got, model) {
		return results, nil, recoveries, truncations, removed, fmt.Errorf("final contents: %s", dbx.Diff(got, model))
	}
	if cerr := core.Safe(func() error { return db.Close() }); cerr != nil {
		db = nil
		return results, nil, recoveries, truncations, removed, fmt.Errorf("final Close failed: %v", cerr)
	}
	db = nil
	files, ferr := env.Files()
	if ferr != nil {
		return results, nil, recoveries, truncations, removed, &core.Inconclusive{Msg: ferr.Error()}
	}
	segs = map[string][]byte{}
	for n, b := range files {
		if strings.HasSuffix(n, ".psg") {
			segs[n] = b
		}
	}
	return results, segs, recoveries, truncations, removed, nil
}

func segSeq(name string) int {
	var id, seq int
	fmt.Sscanf(strings.TrimSuffix(name, ".psg"), "%d-%d", &id, &seq)
	return seq
}

func sum(b []byte) uint32 {
	var s uint32 = 2166136261
	for _, c := range b {
		s = (s ^ uint32(c)) * 16777619
	}
	return s
}

// C17: behaviour does not depend on the FileSystem implementation.
// plantBackups copies every non-segment file X of the database directory (the lock excluded) to
// X.bac through the file system's own API.
func plantBackups(env *Env) error {
	entries, err := env.FS.ReadDir(env.Dir)
	if err != nil {
		return err
	}
	for _, de := range entries {
		n := de.Name()
		if strings.HasSuffix(n, ".psg") || strings.HasSuffix(n, ".bac") || n == "lock" {
			continue
		}
		src, err := env.FS.OpenFile(filepath.Join(env.Dir, n), os.O_RDONLY, 0)
		if err != nil {
			return err
		}
		b, err := io.ReadAll(src)
		_ = src.Close()
		if err != nil {
			return err
		}
		dst, err := env.FS.OpenFile(filepath.Join(env.Dir, n+".bac"), os.O_CREATE|os.O_RDWR|os.O_TRUNC, 0640)
		if err != nil {
			return err
		}
		_, err = dst.Write(b)
		_ = dst.Close()
		if err != nil {
			return err
		}
	}
	return nil
}

// C17, third job: the programs of the first job, with a drawn share of their unclean shutdowns
// followed by the leftovers of an interrupted earlier recovery (stale *.bac files next to the
// files they were renamed from). The next recovery renames onto names that exist; what the three
// file systems make of that must not differ.
func propC17Bac(ch core.Chooser, st *core.Stats) error { return propC17With(ch, st, true) }

func propC17(ch core.Chooser, st *core.Stats) error { return propC17With(ch, st, false) }

func propC17With(ch core.Chooser, st *core.Stats, bac bool) error {
	seed := uint32(ch.Int("hashseed", 0, 1<<30))
	cfg := dbx.Config{SegSize: uint32(core.PickInt(ch, "segsize", []int{1024, 4096, 70000, 200000})), MinSeg: 520, Frag: 0.02}
	cfg.SyncWrites = core.Pct(ch, "syncwrites", 10)
	steps := drawProgram(ch)
	nbac := 0
	if bac {
		// at least one unclean shutdown with leftovers per program
		crashes := 0
		for i := range steps {
			if steps[i].kind == "crash" {
				crashes++
				if core.Pct(ch, "leftover_backups", 60) {
					steps[i].kind = "crashbac"
					nbac++
				}
			}
		}
		if nbac == 0 {
			at := ch.Int("crashbac_at", 0, len(steps))
			steps = append(steps[:at:at], append([]dstep{{kind: "crashbac"}}, steps[at:]...)...)
			nbac++
		}
	}
	for i, s := range steps {
		ch.Note("%d %s klen=%d vlen=%d torn=%d", i, s.kind, len(s.k), s.vlen, len(s.torn))
	}
	kinds := []string{"mem", "os", "mmap"}
	var results [3][]string
	var segs [3]map[string][]byte
	var rec, trunc, rem int
	for e, kind := range kinds {
		pinSeed(seed)
		env := NewEnv(kind)
		r, sg, recoveries, truncations, removed, err := runProgram(env, cfg, steps)
		env.Cleanup()
		if err != nil {
			if _, ok := err.(*core.Inconclusive); ok {
				return err
			}
			return fmt.Errorf("on fs.%s: %v", kind, err)
		}
		results[e], segs[e] = r, sg
		rec, trunc, rem = recoveries, truncations, removed
	}
	for e := 1; e < 3; e++ {
		for i := range results[0] {
			if i >= len(results[e]) || results[e][i] != results[0][i] {
				other := "<missing>"
				if i < len(results[e]) {
					other = results[e][i]
				}
				return fmt.Errorf("results differ between fs.%s and fs.%s: %q versus %q", kinds[0], kinds[e], results[0][i], other)
			}
		}
		if len(segs[e]) != len(segs[0]) {
			return fmt.Errorf("fs.%s ends with %d segment files, fs.%s with %d", kinds[0], len(segs[0]), kinds[e], len(segs[e]))
		}
		for n, b := range segs[0] {
			o, ok := segs[e][n]
			if !ok {
				return fmt.Errorf("segment %s exists on fs.%s but not on fs.%s", n, kinds[0], kinds[e])
			}
			if !bytes.Equal(b, o) {
				return fmt.Errorf("segment %s differs between fs.%s (%d bytes) and fs.%s (%d bytes)", n, kinds[0], len(b), kinds[e], len(o))
			}
		}
	}
	st.Eval(3)
	if bac {
		st.Count("bac_programs", 1)
		st.Count("bac_recoveries_over_leftover_backups", int64(nbac))
		st.Nontrivial(core.FingerprintOf(ch))
		return nil
	}
	st.Count("programs", 1)
	st.Count("recoveries", int64(rec))
	if len(segs[0]) > 1 || trunc > 0 || rem > 0 {
		if len(segs[0]) > 1 {
			st.Count("programs_with_rollover", 1)
		}
		if trunc > 0 {
			st.Count("programs_with_recovery_truncation", 1)
		}
		if rem > 0 {
			st.Count("programs_with_segment_removal", 1)
		}
		st.Nontrivial(core.FingerprintOf(ch))
		if st.WantSample() {
			st.Sample(map[string]interface{}{"program": core.NotesOf(ch, 40), "final_segments": len(segs[0])})
		}
	}
	return nil
}

func TestC17(t *testing.T) { core.Run(t, "C17", "C17", propC17) }

func TestC17Bac(t *testing.T) { core.Run(t, "C17", "C17bac", propC17Bac) }

// propC17File: file-level programs on the fs.File API, within the domain pogreb uses,
// compared with a byte-slice model on every file system.
func propC17File(ch core.Chooser, st *core.Stats) error {
	kinds := []string{"mem", "os", "mmap"}
	n := ch.Int("steps", 1, core.Scale(60, 200))
	huge := core.Pct(ch, "huge", core.Scale(3, 10)) // sparse growth past the 1 GiB initial mapping (real files only)
	type fstep struct {
		op   int
		a, b int
		data []byte
	}
	var prog []fstep
	for i := 0; i < n; i++ {
		s := fstep{op: core.Weighted(ch, "fop", []int{6, 3, 2, 2, 5, 4, 2, 1, 1, 1})}
		s.a = ch.Int("a", 0, 1<<20)
		s.b = ch.Int("b", 0, 1<<20)
		if s.op == 0 || s.op == 1 {
			s.data = fillBytes(ch, core.PickInt(ch, "dlen", []int{1, 16, 512, 513, 4096, 5000, 70000, 300000}))
		}
		prog = append(prog, s)
	}
	shrinkThenGrow := false
	for _, kind := range kinds {
		if huge && kind == "mem" {
			continue
		}
		env := NewEnv(kind)
		if kind != "mem" {
			if err := os.MkdirAll(env.Dir, 0755); err != nil {
				return &core.Inconclusive{Msg: err.Error()}
			}
		}
		err := core.Safe(func() error {
			name := filepath.Join(env.Dir, "f.bin")
			f, err := env.FS.OpenFile(name, os.O_CREATE|os.O_RDWR, 0640)
			if err != nil {
				return &core.Inconclusive{Msg: "open: " + err.Error()}
			}
			defer func() {
				if f != nil {
					_ = f.Close()
				}
			}()
			var model []byte
			var base int64 // offset of the modelled window (huge mode: the window sits above 1 GiB)
			seekOff := int64(0)
			shrunk := false
			if huge {
				base = 1<<30 + 4096*int64(ch.Int("hugepages", 0, 64))
				if err := f.Truncate(base); err != nil {
					return &core.Inconclusive{Msg: "truncate: " + err.Error()}
				}
			}
			size := func() int64 { return base + int64(len(model)) }
			for i, s := range prog {
				switch s.op {
				case 0: // append with WriteAt at the end (what file.append does)
					if _, err := f.WriteAt(s.data, size()); err != nil {
						return fmt.Errorf("step %d: WriteAt at the end failed: %v", i, err)
					}
					model = append(model, s.data...)
					if shrunk {
						shrinkThenGrow = true
					}
				case 1: // overwrite in place (bucket writes)
					if len(model) == 0 {
						continue
					}
					off := s.a % len(model)
					d := s.data
					if off+len(d) > len(model) {
						d = d[:len(model)-off]
					}
					if _, err := f.WriteAt(d, base+int64(off)); err != nil {
						return fmt.Errorf("step %d: WriteAt in place failed: %v", i, err)
					}
					copy(model[off:], d)
				case 2: // extend with Truncate (what file.extend does)
					add := 512 * (1 + s.a%4)
					if err := f.Truncate(size() + int64(add)); err != nil {
						return fmt.Errorf("step %d: Truncate (grow) failed: %v", i, err)
					}
					model = append(model, make([]byte, add)...)
					if shrunk {
						shrinkThenGrow = true
					}
				case 3: // shrink with Truncate (recovery)
					if len(model) == 0 {
						continue
					}
					nl := s.a % (len(model) + 1)
					if err := f.Truncate(base + int64(nl)); err != nil {
						return fmt.Errorf("step %d: Truncate (shrink) failed: %v", i, err)
					}
					model = model[:nl]
					shrunk = true
				case 4: // Slice
					if len(model) == 0 {
						continue
					}
					lo := s.a % len(model)
					hi := lo + s.b%(len(model)-lo+1)
					got, err := f.Slice(base+int64(lo), base+int64(hi))
					if err != nil {
						return fmt.Errorf("step %d: Slice(%d,%d) of a %d-byte file failed: %v", i, base+int64(lo), base+int64(hi), size(), err)
					}
					if !bytes.Equal(got, model[lo:hi]) {
						return fmt.Errorf("step %d: Slice(%d,%d) returned wrong bytes", i, lo, hi)
					}
				case 5: // ReadAt within the file
					if len(model) == 0 {
						continue
					}
					lo := s.a % len(model)
					l := 1 + s.b%(len(model)-lo)
					buf := make([]byte, l)
					if _, err := f.ReadAt(buf, base+int64(lo)); err != nil {
						return fmt.Errorf("step %d: ReadAt(%d bytes at %d) of a %d-byte file failed: %v", i, l, base+int64(lo), size(), err)
					}
					if !bytes.Equal(buf, model[lo:lo+l]) {
						return fmt.Errorf("step %d: ReadAt returned wrong bytes", i)
					}
				case 6: // Seek + Read (sequential readers: segment iterator, gob files)
					if len(model) == 0 {
						continue
					}
					lo := s.a % len(model)
					if _, err := f.Seek(base+int64(lo), io.SeekStart); err != nil {
						return fmt.Errorf("step %d: Seek failed: %v", i, err)
					}
					seekOff = int64(lo)
					buf := make([]byte, 1+s.b%4096)
					nr, err := io.ReadFull(f, buf)
					want := model[seekOff:]
					if len(want) > len(buf) {
						want = want[:len(buf)]
					}
					if nr != len(want) || !bytes.Equal(buf[:nr], want) {
						return fmt.Errorf("step %d: sequential read at %d returned %d bytes (err %v), want %d", i, lo, nr, err, len(want))
					}
				case 7: // Stat
					fi, err := f.Stat()
					if err != nil {
						return fmt.Errorf("step %d: Stat failed: %v", i, err)
					}
					if fi.Size() != size() {
						return fmt.Errorf("step %d: Stat size %d, want %d", i, fi.Size(), size())
					}
				case 8: // Sync
					if err := f.Sync(); err != nil {
						return fmt.Errorf("step %d: Sync failed: %v", i, err)
					}
				case 9: // close and open again: contents and size persist
					if err := f.Close(); err != nil {
						f = nil
						return fmt.Errorf("step %d: Close failed: %v", i, err)
					}
					f, err = env.FS.OpenFile(name, os.O_RDWR, 0640)
					if err != nil {
						f = nil
						return fmt.Errorf("step %d: reopening the file failed: %v", i, err)
					}
					if fi, err := f.Stat(); err != nil || fi.Size() != size() {
						return fmt.Errorf("step %d: size after reopen %v (err %v), want %d", i, fi, err, size())
					}
				}
			}
			// directory level: ReadDir sees the file, Rename and Remove work
			entries, err := env.FS.ReadDir(env.Dir)
			if err != nil || len(entries) != 1 || entries[0].Name() != "f.bin" {
				return fmt.Errorf("ReadDir: %v entries, err %v", len(entries), err)
			}
			if info, err := entries[0].Info(); err != nil || info.Size() != size() {
				return fmt.Errorf("ReadDir entry size mismatch (err %v)", err)
			}
			if err := f.Close(); err != nil {
				f = nil
				return fmt.Errorf("Close failed: %v", err)
			}
			f = nil
			if err := env.FS.Rename(name, name+".bac"); err != nil {
				return fmt.Errorf("Rename failed: %v", err)
			}
			if _, err := env.FS.Stat(name); err == nil {
				return fmt.Errorf("Stat of the old name succeeds after Rename")
			}
			if fi, err := env.FS.Stat(name + ".bac"); err != nil || fi.Size() != size() {
				return fmt.Errorf("Stat after Rename: err %v", err)
			}
			if err := env.FS.Remove(name + ".bac"); err != nil {
				return fmt.Errorf("Remove failed: %v", err)
			}
			if _, err := env.FS.Stat(name + ".bac"); err == nil {
				return fmt.Errorf("Stat succeeds after Remove")
			}
			return nil
		})
		env.Cleanup()
		if err != nil {
			if _, ok := err.(*core.Inconclusive); ok {
				return err
			}
			return fmt.Errorf("file program on fs.%s (huge=%v): %v", kind, huge, err)
		}
		st.Eval(1)
	}
	st.Count("file_programs", 1)
	if huge {
		st.Count("file_programs_beyond_1GiB_mapping", 1)
	}
	if shrinkThenGrow {
		st.Count("file_programs_shrink_then_grow", 1)
		st.Nontrivial(core.FingerprintOf(ch))
		if st.WantSample() {
			st.Sample(map[string]interface{}{"file_program_steps": n, "beyond_1GiB": huge})
		}
	}
	_ = pfs.Mem
	return nil
}

func TestC17File(t *testing.T) { core.Run(t, "C17", "C17file", propC17File) }
