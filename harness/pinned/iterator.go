package pogreb

import (
	"errors"
	"sync"
)

// ErrIterationDone is returned by ItemIterator.Next calls when there are no more items to return.
var ErrIterationDone = errors.New("no more items in iterator")

type item struct {
	key   []byte
	value []byte
}

// ItemIterator is an iterator over DB key-value pairs. It iterates the items in an unspecified order.
type ItemIterator struct {
	db            *DB
	nextBucketIdx uint32
	queue         []item
	mu            sync.Mutex
}

// fetchItems adds items to the iterator queue from a bucket located at nextBucketIdx.
func (it *ItemIterator) fetchItems(nextBucketIdx uint32) error {
	bit := it.db.index.newBucketIterator(nextBucketIdx)
	for {
		b, err := bit.next()
		if err == ErrIterationDone {
			return nil
		}
		if err != nil {
			return err
		}
		for i := 0; i < slotsPerBucket; i++ {
			sl := b.slots[i]
			if sl.offset == 0 {
				// No more items in the bucket.
				break
			}
			key, value, err := it.db.datalog.readKeyValue(sl)
			if err != nil {
				return err
			}
			key = cloneBytes(key)
			value = cloneBytes(value)
			it.queue = append(it.queue, item{key: key, value: value})
		}
	}
}

// Next returns the next key-value pair if available, otherwise it returns ErrIterationDone error.
func (it *ItemIterator) Next() ([]byte, []byte, error) {
	it.mu.Lock()
	defer it.mu.Unlock()

	it.db.mu.RLock()
	defer it.db.mu.RUnlock()

	// The iterator queue is empty and we have more buckets to check.
	for len(it.queue) == 0 && it.nextBucketIdx < it.db.index.numBuckets {
		if err := it.fetchItems(it.nextBucketIdx); err != nil {
			return nil, nil, err
		}
		it.nextBucketIdx++
	}

	if len(it.queue) > 0 {
		item := it.queue[0]
		it.queue = it.queue[1:]
		return item.key, item.value, nil
	}

	return nil, nil, ErrIterationDone
}
