//go:build verif

package fs

// VerifLockYield, when set, is called between the system calls of lock file acquisition and
// release with the name of the system call that is about to be issued.
// It is only available with the "verif" build tag and must only be changed while no lock
// operation is in progress.
var VerifLockYield func(point string)

func verifLockYield(point string) {
	if f := VerifLockYield; f != nil {
		f(point)
	}
}
