package checks

import (
	"testing"

	"verif/harness/core"
	"verif/harness/dbx"
	"verif/harness/faultfs"
)

// C05: compaction is logically invisible, even with interleaved writers and crashes.
func propC05(ch core.Chooser, st *core.Stats) error {
	// a third of the universes put 40 keys into one bucket chain: compaction's index lookups then
	// walk overflow buckets, with holes left by deletes
	_, ukeys := drawUniverseP(ch, 35)
	cfg := dbx.DrawConfig(ch, []int{600, 1024, 2048})
	cfg.Frag = []float32{0.02, 0.1, 0.3, 0.5}[ch.Int("frag5", 0, 3)]
	// the minimum segment size for compaction: mostly the smallest, sometimes close to the
	// segment size (segments sealed early by a record that did not fit then stay below it)
	cfg.MinSeg = 520
	if core.Pct(ch, "minseg_var", 40) {
		cfg.MinSeg = uint32(core.PickInt(ch, "minseg5", []int{600, 800, 1000, int(cfg.SegSize) - 100, int(cfg.SegSize)}))
		if cfg.MinSeg < 520 {
			cfg.MinSeg = 520
		}
	}
	cfg.SyncWrites = core.Pct(ch, "syncwrites", 10)
	s := newFsess(ch, st, nil, cfg, ukeys, map[string]string{})
	s.oversize = core.Pct(ch, "oversize", 10)
	s.inlineWeight = []int{5, 4, 1, 1, 3}
	s.valueLens = []int{0, 1, 5, 20, 60, 60, 120, 300, 490, 506, 1000}
	s.hotCold = core.Bool(ch, "hotcold")
	ch.Note("config: %s universe=%d keys hotcold=%v", cfg, len(ukeys), s.hotCold)
	if err := s.open(); err != nil {
		return err
	}
	// directed (universes with the 40-key chain): store the whole chain - one main bucket plus an
	// overflow bucket - and delete a few keys of its first bucket, so that compaction looks up
	// live records that sit behind a hole of their chain
	if len(ukeys) >= 50 && core.Pct(ch, "chain_prefill", 60) {
		chain := ukeys[3:43]
		for _, k := range chain {
			if err := s.put(k, core.PickInt(ch, "chain_vlen", []int{1, 5, 20})); err != nil {
				return err
			}
		}
		for i, n := 0, ch.Int("chain_holes", 1, 3); i < n; i++ {
			if err := s.del(chain[ch.Int("chain_hole", 0, 30)]); err != nil {
				return err
			}
		}
		st.Count("histories_with_chain_prefill", 1)
	}
	// phase 1: fill segments and make them eligible (overwrites and deletes of hot keys)
	delw := core.PickInt(ch, "prefill_delw", []int{0, 0, 1, 4})
	maxPrefill := core.Scale(30, 120)
	if core.Pct(ch, "hazard_prefix", 50) {
		if err := s.hazardPrefill(); err != nil {
			return err
		}
		maxPrefill = 6 // keep the constructed shape mostly intact
		if len(s.victims) > 0 {
			maxPrefill = 2
		}
	}
	if err := s.runOps(ch.Int("prefill", 0, maxPrefill), []int{8, delw, 0, 0, 0, 0, 0}); err != nil {
		return err
	}
	firstCompact := s.fs.LogLen()
	// phase 2: compactions with inline writers, more writes, restarts, kills
	if err := s.compact(); err != nil {
		return err
	}
	if err := s.readback("after Compact"); err != nil {
		return err
	}
	if err := s.runOps(ch.Int("nops", 0, core.Scale(10, 50)), []int{6, 4, 4, 1, 1, 1, 2, 1}); err != nil {
		return err
	}
	// a dropped delete marker or a lost copy only shows after a recovery: always end with one
	if err := s.killAndRecover(); err != nil {
		return err
	}
	if core.Bool(ch, "finalclose") {
		if err := s.closeDB(); err != nil {
			return err
		}
	}
	st.Count("histories", 1)
	st.Count("compactions", int64(s.compactions))
	st.Count("compacted_segments", int64(s.compactedSegs))
	st.Count("reclaimed_records", int64(s.reclaimed))
	st.Count("inline_writer_ops", int64(s.inlineWriters))
	st.Count("yield_points", int64(s.yields))
	nontrivial := s.compactedSegs > 0 && s.inlineWriters > 0
	if nontrivial {
		st.Count("histories_nontrivial", 1)
		if st.WantSample() {
			st.Sample(map[string]interface{}{"history": core.NotesOf(ch, 70), "compacted_segments": s.compactedSegs, "inline_writer_ops": s.inlineWriters})
		}
	}
	// every crash point inside a Compact call (copy, repoint, source removal, delete-marker drop,
	// inline writers), plus - for a drawn fifth of the histories - every later point as well
	s.trivialHistory = !nontrivial
	all := core.Pct(ch, "enumerate_all", 20)
	err := enumerateCrashPoints(ch, st, s, faultfs.NewState(), 0, func(p int, w *logWalker) bool {
		return p >= firstCompact && (all || w.depth["C"] > 0)
	}, "C05")
	return err
}

func TestC05(t *testing.T) { core.Run(t, "C05", "C05", propC05) }
