// Package format is an independent reader/writer of the documented pogreb v2 segment format.
package format

import (
	"encoding/binary"
	"hash/crc32"
)

type Record struct {
	Delete bool
	Key    []byte
	Value  []byte
	Off    int
	Len    int
}

var Signature = []byte{'p', 'o', 'g', 'r', 'e', 'b', 0x0e, 0xfd}

func HeaderOK(b []byte) bool {
	if len(b) < 512 {
		return false
	}
	for i, c := range Signature {
		if b[i] != c {
			return false
		}
	}
	return binary.LittleEndian.Uint32(b[8:12]) == 2
}

// Decode returns the records of the valid prefix and the offset where it ends.
func Decode(seg []byte) ([]Record, int) {
	off := 512
	var out []Record
	for {
		rest := seg[off:]
		if len(rest) < 6 {
			return out, off
		}
		ks := int(binary.LittleEndian.Uint16(rest[0:2]))
		vt := binary.LittleEndian.Uint32(rest[2:6])
		del := vt>>31 == 1
		vs := int(vt & 0x7fffffff)
		total := 6 + ks + vs + 4
		if total > len(rest) {
			return out, off
		}
		if crc32.ChecksumIEEE(rest[:6+ks+vs]) != binary.LittleEndian.Uint32(rest[6+ks+vs:total]) {
			return out, off
		}
		out = append(out, Record{Delete: del, Key: rest[6 : 6+ks], Value: rest[6+ks : 6+ks+vs], Off: off, Len: total})
		off += total
	}
}

func Encode(key, value []byte, del bool) []byte {
	b := make([]byte, 0, 10+len(key)+len(value))
	var h [6]byte
	binary.LittleEndian.PutUint16(h[0:2], uint16(len(key)))
	vt := uint32(len(value))
	if del {
		vt |= 1 << 31
	}
	binary.LittleEndian.PutUint32(h[2:6], vt)
	b = append(b, h[:]...)
	b = append(b, key...)
	b = append(b, value...)
	var c [4]byte
	binary.LittleEndian.PutUint32(c[:], crc32.ChecksumIEEE(b))
	return append(b, c[:]...)
}

// ParseSegmentName parses "<id 5 digits>-<sequence>.psg".
func ParseSegmentName(name string) (id int, seq uint64, ok bool) {
	if len(name) < 11 || name[len(name)-4:] != ".psg" || name[5] != '-' {
		return 0, 0, false
	}
	for i := 0; i < 5; i++ {
		if name[i] < '0' || name[i] > '9' {
			return 0, 0, false
		}
		id = id*10 + int(name[i]-'0')
	}
	digits := name[6 : len(name)-4]
	if len(digits) == 0 {
		return 0, 0, false
	}
	for i := 0; i < len(digits); i++ {
		if digits[i] < '0' || digits[i] > '9' {
			return 0, 0, false
		}
		seq = seq*10 + uint64(digits[i]-'0')
	}
	return id, seq, true
}
