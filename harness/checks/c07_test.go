package checks

import (
	"fmt"
	"runtime"
	"sort"
	"strings"
	"sync"
	"testing"
	"time"

	"github.com/akrylysov/pogreb"

	"verif/harness/core"
	"verif/harness/dbx"
	"verif/harness/hookfs"
	"verif/harness/keys"
)

// concDB is a database under concurrent test together with its history.
type concDB struct {
	db   *pogreb.DB
	h    *chist
	errs chan string
}

func (c *concDB) fail(format string, args ...interface{}) {
	select {
	case c.errs <- fmt.Sprintf(format, args...):
	default:
	}
}

// do executes one single-key operation and records it.
func (c *concDB) do(client int, kind, key, val string) {
	o := cop{Client: client, Kind: kind, Key: key, Val: val}
	o.Call = c.h.now()
	err := core.Safe(func() error {
		switch kind {
		case "put":
			return c.db.Put([]byte(key), []byte(val))
		case "del":
			return c.db.Delete([]byte(key))
		case "get":
			v, err := c.db.Get([]byte(key))
			o.Found, o.Out = v != nil, string(v)
			return err
		case "geta":
			buf := make([]byte, 2, 8)
			buf[0], buf[1] = 'P', ':'
			v, err := c.db.GetAppend([]byte(key), buf)
			if v != nil {
				if len(v) < 2 || string(v[:2]) != "P:" {
					return fmt.Errorf("GetAppend lost the caller's prefix: %q", v)
				}
				o.Found, o.Out = true, string(v[2:])
			}
			return err
		case "has":
			ok, err := c.db.Has([]byte(key))
			o.Found = ok
			return err
		case "count":
			o.N = int(c.db.Count())
		}
		return nil
	})
	o.Ret = c.h.now()
	if err != nil {
		o.Err = err.Error()
		c.fail("%s failed: %v", o.String(), err)
	}
	c.h.add(o)
}

// judge checks the finished history: linearizability of the single-key operations, Count bounds.
func judge(ops []cop) (violation string, unknown bool) {
	bad, unk := checkLinearizable(ops, 20*time.Second)
	if bad != "" {
		return bad, false
	}
	for _, o := range ops {
		if o.Kind != "count" {
			continue
		}
		lo, hi := countBounds(ops, o.Call, o.Ret)
		if o.N < lo || o.N > hi {
			return fmt.Sprintf("%s, but between its call and its return at least %d and at most %d keys can have been live", o.String(), lo, hi), false
		}
	}
	return "", unk
}

type concOp struct {
	kind, key, val string
}

func drawConcOp(ch core.Chooser, hot []string, tag string, n int, weights []int) concOp {
	kinds := []string{"put", "del", "get", "geta", "has", "count"}
	k := kinds[core.Weighted(ch, "ckind", weights)]
	key := hot[ch.Int("ckey", 0, len(hot)-1)]
	op := concOp{kind: k, key: key}
	if k == "put" {
		op.val = mkValue(n, core.PickInt(ch, "cvlen", []int{5, 5, 20, 60, 300, 900})) + tag
	}
	return op
}

// ---------------------------------------------------------------------------------------------
// pause-and-probe: one operation (the victim) is parked inside its k-th file-system call, i.e.
// typically in the middle of its exclusive critical section (between log append and index
// update, in the middle of a bucket split, between copy and repoint of a compaction step);
// probe operations are started on other goroutines, are given a moment to (wrongly) complete,
// then the victim is resumed. The timestamped history goes to the linearizability oracle.

type pauser struct {
	mu     sync.Mutex
	armed  bool
	target int
	seen   int
	parked chan string
	resume chan struct{}
}

func (p *pauser) hook(e hookfs.Event) {
	p.mu.Lock()
	if !p.armed {
		p.mu.Unlock()
		return
	}
	p.seen++
	if p.seen < p.target {
		p.mu.Unlock()
		return
	}
	p.armed = false
	p.mu.Unlock()
	p.parked <- e.Op + " " + shortName(e.Name)
	<-p.resume
}

func propC07Pause(ch core.Chooser, st *core.Stats) error {
	seed := uint32(ch.Int("hashseed", 0, 1<<30))
	pinSeed(seed)
	uni := keys.Build(seed, keys.Spec{Identical: 1, LowBits16: 40, LowBits2: 30, SplitBit: 4, Plain: 80, Variant: uint32(ch.Int("univariant", 0, 3))})
	var ukeys []string
	for _, k := range uni.Keys {
		ukeys = append(ukeys, string(k))
	}
	kind := drawEnvKind(ch, []string{"mem", "os", "mmap", "fault"})
	env := NewEnv(kind)
	defer env.Cleanup()
	hfs := hookfs.New(env.FS)
	cfg := dbx.Config{SegSize: uint32(core.PickInt(ch, "segsize", []int{1024, 2048, 4096, 1 << 20})), MinSeg: 520, Frag: 0.02}
	cfg.SyncWrites = core.Pct(ch, "syncwrites", 30) // sync after every write: more file-system calls inside a Put/Delete to park in
	db, err := dbx.Open(env.Dir, cfg, hfs)
	if err != nil {
		return err
	}
	defer func() { _ = core.Safe(func() error { return db.Close() }) }()
	c := &concDB{db: db, h: &chist{}, errs: make(chan string, 16)}
	// prefill so that the next insert of a new key is likely to split a bucket (the index
	// splits when the number of keys exceeds 0.7 * 31 * buckets) or to allocate an overflow bucket
	nPre := ch.Int("prefill", 0, 150)
	if core.Pct(ch, "aim_split", 60) {
		nPre = core.PickInt(ch, "split_at", []int{21, 43, 65, 86, 108, 130}) + ch.Int("split_off", 0, 1)
	}
	if nPre > len(ukeys)-8 {
		nPre = len(ukeys) - 8
	}
	order := ch.Int("prefill_from", 0, len(ukeys)-1)
	var pre []string
	for i := 0; i < nPre; i++ {
		pre = append(pre, ukeys[(order+i)%len(ukeys)])
	}
	for i, k := range pre {
		c.do(0, "put", k, mkValue(i, core.PickInt(ch, "pvlen", []int{1, 20, 60, 300})))
	}
	// keys never stored before: inserting them grows the index
	var fresh []string
	for i := nPre; i < len(ukeys); i++ {
		fresh = append(fresh, ukeys[(order+i)%len(ukeys)])
	}
	ch.Note("fs=%s %s prefill=%d keys", kind, cfg, nPre)
	p := &pauser{parked: make(chan string), resume: make(chan struct{})}
	hfs.SetHook(p.hook)
	defer hfs.SetHook(nil)
	pauses := ch.Int("pauses", 1, core.Scale(6, 12))
	parkedCount, probesDuringPark, victimSplit := 0, 0, 0
	n := 1000
	for i := 0; i < pauses; i++ {
		// the victim operation
		vk := ch.Int("victim_kind", 0, 9)
		var victim func()
		var vdesc, vkey string
		switch {
		case vk <= 4 && len(fresh) > 0: // insert of a new key
			k := fresh[0]
			fresh = fresh[1:]
			n++
			v := mkValue(n, core.PickInt(ch, "vvlen", []int{5, 60, 300, 900}))
			pre = append(pre, k)
			vkey = k
			vdesc = "Put(new key " + dbx.K(k) + ")"
			victim = func() { c.do(1, "put", k, v) }
		case vk <= 6 && len(pre) > 0: // overwrite
			k := pre[ch.Int("vkey", 0, len(pre)-1)]
			n++
			v := mkValue(n, core.PickInt(ch, "vvlen", []int{5, 60, 300, 900}))
			vkey = k
			vdesc = "Put(existing key " + dbx.K(k) + ")"
			victim = func() { c.do(1, "put", k, v) }
		case vk == 7 && len(pre) > 0:
			k := pre[ch.Int("vkey", 0, len(pre)-1)]
			vkey = k
			vdesc = "Delete(" + dbx.K(k) + ")"
			victim = func() { c.do(1, "del", k, "") }
		default:
			vdesc = "Compact()"
			victim = func() {
				if err := core.Safe(func() error { _, e := db.Compact(); return e }); err != nil {
					c.fail("Compact failed: %v", err)
				}
			}
		}
		bucketsBefore := 0
		_ = core.Safe(func() error { d, _, e := db.VerifIndexDump(10); bucketsBefore = int(d.NumBuckets); return e })
		p.mu.Lock()
		p.armed, p.seen = true, 0
		p.target = ch.Int("park_at_call", 1, 6)
		if vdesc == "Compact()" {
			p.target = ch.Int("park_at_call_c", 1, 80)
		}
		p.mu.Unlock()
		done := make(chan struct{})
		go func() { victim(); close(done) }()
		var where string
		select {
		case where = <-p.parked:
		case <-done:
			p.mu.Lock()
			p.armed = false
			p.mu.Unlock()
			ch.Note("pause %d: %s finished before its file-system call %d", i, vdesc, p.target)
			continue
		case <-time.After(60 * time.Second):
			return &core.Inconclusive{Msg: "victim operation neither parked nor finished within 60 s"}
		}
		parkedCount++
		// probes
		np := ch.Int("probes", 1, 3)
		var wg sync.WaitGroup
		var probeDesc []string
		for j := 0; j < np; j++ {
			if len(pre) == 0 {
				break
			}
			n++
			op := drawConcOp(ch, pre, fmt.Sprintf("#p%d", j), n, []int{3, 1, 4, 1, 2, 1})
			if vkey != "" && core.Pct(ch, "probe_victim_key", 50) {
				op.key = vkey
			}
			probeDesc = append(probeDesc, op.kind+" "+dbx.K(op.key))
			wg.Add(1)
			go func(j int, op concOp) {
				defer wg.Done()
				c.do(2+j, op.kind, op.key, op.val)
			}(j, op)
		}
		if core.Pct(ch, "probe_compact", 25) && vdesc != "Compact()" {
			// a maintenance operation among the probes: it must wait like everybody else
			probeDesc = append(probeDesc, "Compact")
			wg.Add(1)
			go func() {
				defer wg.Done()
				if err := core.Safe(func() error { _, e := db.Compact(); return e }); err != nil && !strings.Contains(err.Error(), "busy") {
					c.fail("Compact (probe) failed: %v", err)
				}
			}()
		}
		before := len(c.h.snapshot())
		// give the probes a moment to (wrongly) complete; the length of the wait only shapes
		// the schedule, it is never a verdict
		time.Sleep(time.Duration(core.PickInt(ch, "wait_us", []int{50, 200, 1000})) * time.Microsecond)
		runtime.Gosched()
		duringPark := len(c.h.snapshot()) - before
		probesDuringPark += duringPark
		p.resume <- struct{}{}
		fin := make(chan struct{})
		go func() { wg.Wait(); <-done; close(fin) }()
		select {
		case <-fin:
		case <-time.After(60 * time.Second):
			return &core.Inconclusive{Msg: "operations did not finish within 60 s after the paused operation was resumed"}
		}
		bucketsAfter := 0
		_ = core.Safe(func() error { d, _, e := db.VerifIndexDump(10); bucketsAfter = int(d.NumBuckets); return e })
		if bucketsAfter > bucketsBefore {
			victimSplit++
		}
		ch.Note("pause %d: %s parked inside %s; probes %v; %d returned while parked; buckets %d -> %d", i, vdesc, where, probeDesc, duringPark, bucketsBefore, bucketsAfter)
	}
	hfs.SetHook(nil)
	select {
	case e := <-c.errs:
		return fmt.Errorf("%s\nhistory tail:\n%s", e, histTail(c.h.snapshot(), 30))
	default:
	}
	// quiescent end: every key is read once more; those reads join the history
	for _, k := range pre {
		c.do(0, "get", k, "")
	}
	c.do(0, "count", "", "")
	ops := c.h.snapshot()
	bad, unknown := judge(ops)
	if bad != "" {
		return fmt.Errorf("not linearizable: %s", bad)
	}
	if unknown {
		st.Count("histories_checker_timeout", 1)
		return nil
	}
	if _, err := dbx.CheckIndex(db); err != nil {
		return fmt.Errorf("index invariant at the quiescent end: %v", err)
	}
	st.Eval(1)
	st.Count("pauses_parked", int64(parkedCount))
	st.Count("pauses_with_index_growth", int64(victimSplit))
	st.Count("probes_returned_while_victim_parked", int64(probesDuringPark))
	st.Count("fs_"+kind, 1)
	if pairs := overlapStats(ops); pairs > 0 {
		st.Count("overlapping_same_key_pairs", int64(pairs))
		st.Nontrivial(core.FingerprintOf(ch))
		if st.WantSample() {
			st.Sample(map[string]interface{}{"schedule": core.NotesOf(ch, 30), "history_tail": strings.Split(histTail(ops, 12), "\n")})
		}
	}
	return nil
}

func histTail(ops []cop, n int) string {
	sort.Slice(ops, func(i, j int) bool { return ops[i].Call < ops[j].Call })
	if len(ops) > n {
		ops = ops[len(ops)-n:]
	}
	var sb strings.Builder
	for _, o := range ops {
		sb.WriteString(o.String() + "\n")
	}
	return strings.TrimRight(sb.String(), "\n")
}

func TestC07Pause(t *testing.T) { core.Run(t, "C07", "C07pause", propC07Pause) }

// ---------------------------------------------------------------------------------------------
// free-running: goroutines execute rapid-drawn operation lists behind a start barrier while
// Compact, Sync, Count, Items scans and Backup run alongside; the compaction yield hook gives
// up the processor between two records so that writers get into the lock-release window.

type freeRun struct {
	c         *concDB
	kind      string
	env       *Env
	hot       []string
	workers   [][]concOp
	compacts  int
	syncs     int
	scans     int
	backups   int
	compacted int
}

func setupFreeRun(ch core.Chooser, kinds []string, maxWorkers, maxOps int) (*freeRun, error) {
	seed := uint32(ch.Int("hashseed", 0, 1<<30))
	pinSeed(seed)
	uni := keys.Build(seed, keys.Spec{Identical: 1, LowBits16: 40, LowBits2: 10, Plain: 30, Variant: uint32(ch.Int("univariant", 0, 3))})
	var ukeys []string
	for _, k := range uni.Keys {
		ukeys = append(ukeys, string(k))
	}
	kind := drawEnvKind(ch, kinds)
	env := NewEnv(kind)
	cfg := dbx.Config{SegSize: uint32(core.PickInt(ch, "segsize", []int{1024, 2048, 4096})), MinSeg: 520, Frag: []float32{0.02, 0.1, 0.3}[ch.Int("frag", 0, 2)]}
	cfg.SyncWrites = core.Pct(ch, "syncwrites", 30)
	db, err := dbx.Open(env.Dir, cfg, env.FS)
	if err != nil {
		env.Cleanup()
		return nil, err
	}
	fr := &freeRun{c: &concDB{db: db, h: &chist{}, errs: make(chan string, 16)}, kind: kind, env: env}
	// cold keys: written once, they stay live in old segments (compaction has to promote them)
	// and share bucket chains with the hot keys
	nCold := ch.Int("cold", 5, 60)
	for i := 0; i < nCold && i < len(ukeys); i++ {
		fr.c.do(0, "put", ukeys[i], mkValue(i, core.PickInt(ch, "coldvlen", []int{20, 60, 300})))
	}
	nHot := ch.Int("hot", 2, 6)
	for i := 0; i < nHot; i++ {
		fr.hot = append(fr.hot, ukeys[(nCold+i*3)%len(ukeys)])
	}
	// a few cold keys take part as well, so that promoted records get concurrent writers
	for i := 0; i < 2 && i < nCold; i++ {
		fr.hot = append(fr.hot, ukeys[ch.Int("coldhot", 0, nCold-1)])
	}
	nw := ch.Int("workers", 2, maxWorkers)
	n := 0
	for w := 0; w < nw; w++ {
		var ops []concOp
		for i, m := 0, ch.Int("nops", 5, maxOps); i < m; i++ {
			n++
			ops = append(ops, drawConcOp(ch, fr.hot, fmt.Sprintf("#w%d", w), n, []int{6, 2, 4, 1, 2, 1}))
		}
		fr.workers = append(fr.workers, ops)
	}
	fr.compacts = ch.Int("compacts", 0, 6)
	fr.syncs = ch.Int("syncs", 0, 3)
	fr.scans = ch.Int("scans", 0, 2)
	if kind == "os" || kind == "mmap" {
		fr.backups = ch.Int("backups", 0, 1)
	}
	ch.Note("fs=%s %s cold=%d hot=%d workers=%d compacts=%d syncs=%d scans=%d backups=%d", kind, cfg, nCold, len(fr.hot), nw, fr.compacts, fr.syncs, fr.scans, fr.backups)
	return fr, nil
}

// run starts everything behind a barrier and waits for completion (bounded).
func (fr *freeRun) run() error {
	c := fr.c
	var wg sync.WaitGroup
	start := make(chan struct{})
	pogreb.VerifCompactionYield = func(db *pogreb.DB, point string) { runtime.Gosched() }
	defer func() { pogreb.VerifCompactionYield = nil }()
	for w, ops := range fr.workers {
		wg.Add(1)
		go func(w int, ops []concOp) {
			defer wg.Done()
			<-start
			for _, op := range ops {
				c.do(10+w, op.kind, op.key, op.val)
			}
		}(w, ops)
	}
	aux := func(n int, f func(i int)) {
		if n == 0 {
			return
		}
		wg.Add(1)
		go func() {
			defer wg.Done()
			<-start
			for i := 0; i < n; i++ {
				f(i)
				runtime.Gosched()
			}
		}()
	}
	var cmu sync.Mutex
	aux(fr.compacts, func(i int) {
		if err := core.Safe(func() error {
			cr, e := c.db.Compact()
			cmu.Lock()
			fr.compacted += cr.CompactedSegments
			cmu.Unlock()
			return e
		}); err != nil && !strings.Contains(err.Error(), "busy") {
			c.fail("Compact failed: %v", err)
		}
	})
	aux(fr.syncs, func(i int) {
		if err := core.Safe(func() error { return c.db.Sync() }); err != nil {
			c.fail("Sync failed: %v", err)
		}
	})
	aux(fr.scans, func(i int) {
		if err := core.Safe(func() error {
			it := c.db.Items()
			for n := 0; n < 100000; n++ {
				_, _, e := it.Next()
				if e == pogreb.ErrIterationDone {
					return nil
				}
				if e != nil {
					return e
				}
			}
			return fmt.Errorf("scan does not terminate")
		}); err != nil {
			c.fail("Items scan failed: %v", err)
		}
	})
	aux(fr.backups, func(i int) {
		bdir := fmt.Sprintf("%s-bak%d", fr.env.Dir, i)
		if err := core.Safe(func() error { return c.db.Backup(bdir) }); err != nil && !strings.Contains(err.Error(), "busy") {
			c.fail("Backup failed: %v", err)
		}
		benv := &Env{Kind: fr.env.Kind, FS: fr.env.FS, Dir: bdir}
		benv.Cleanup()
	})
	close(start)
	fin := make(chan struct{})
	go func() { wg.Wait(); close(fin) }()
	select {
	case <-fin:
	case <-time.After(120 * time.Second):
		return &core.Inconclusive{Msg: "free-running workload did not finish within 120 s"}
	}
	return nil
}

func propC07Free(ch core.Chooser, st *core.Stats) error {
	fr, err := setupFreeRun(ch, []string{"os", "mmap", "mem", "fault"}, core.Scale(4, 6), core.Scale(25, 60))
	if err != nil {
		return err
	}
	defer fr.env.Cleanup()
	defer func() { _ = core.Safe(func() error { return fr.c.db.Close() }) }()
	if err := fr.run(); err != nil {
		return err
	}
	c := fr.c
	select {
	case e := <-c.errs:
		return fmt.Errorf("%s\nhistory tail:\n%s", e, histTail(c.h.snapshot(), 30))
	default:
	}
	for _, k := range fr.hot {
		c.do(0, "get", k, "")
	}
	c.do(0, "count", "", "")
	ops := c.h.snapshot()
	bad, unknown := judge(ops)
	if bad != "" {
		return fmt.Errorf("not linearizable: %s", bad)
	}
	if unknown {
		st.Count("histories_checker_timeout", 1)
		return nil
	}
	// quiescent end: the full contents are those of the per-key final reads plus the cold keys
	if _, err := dbx.CheckIndex(c.db); err != nil {
		return fmt.Errorf("index invariant at the quiescent end: %v", err)
	}
	st.Eval(1)
	st.Count("free_fs_"+fr.kind, 1)
	st.Count("free_ops", int64(len(ops)))
	st.Count("free_compacted_segments", int64(fr.compacted))
	if pairs := overlapStats(ops); pairs > 0 {
		st.Count("overlapping_same_key_pairs", int64(pairs))
		st.Nontrivial(core.FingerprintOf(ch))
		if st.WantSample() {
			st.Sample(map[string]interface{}{"setup": core.NotesOf(ch, 3), "history_tail": strings.Split(histTail(ops, 14), "\n"), "overlapping_pairs": pairs})
		}
	}
	return nil
}

func TestC07Free(t *testing.T) { core.Run(t, "C07", "C07free", propC07Free) }
