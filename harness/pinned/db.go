package pogreb

import (
	"bytes"
	"context"
	"math"
	"os"
	"sync"
	"time"

	"verif/harness/pinned/fs"
	"verif/harness/pinned/internal/errors"
	"verif/harness/pinned/internal/hash"
)

const (
	// MaxKeyLength is the maximum size of a key in bytes.
	MaxKeyLength = math.MaxUint16

	// MaxValueLength is the maximum size of a value in bytes.
	MaxValueLength = 512 << 20 // 512 MiB

	// MaxKeys is the maximum numbers of keys in the DB.
	MaxKeys = math.MaxUint32

	metaExt    = ".pmt"
	dbMetaName = "db" + metaExt
)

// DB represents the key-value storage.
// All DB methods are safe for concurrent use by multiple goroutines.
type DB struct {
	mu             sync.RWMutex // Allows multiple database readers or a single writer.
	opts           *Options
	index          *index
	datalog        *datalog
	lock           fs.LockFile // Prevents opening multiple instances of the same database.
	hashSeed       uint32
	metrics        *Metrics
	syncWrites     bool
	cancelBgWorker context.CancelFunc
	closeWg        sync.WaitGroup
	maintenanceMu  sync.Mutex // Ensures there only one maintenance task running at a time.
}

type dbMeta struct {
	HashSeed uint32
}

// Open opens or creates a new DB.
// The DB must be closed after use, by calling Close method.
func Open(path string, opts *Options) (*DB, error) {
	opts = opts.copyWithDefaults(path)

	if err := opts.rootFS.MkdirAll(path, 0755); err != nil {
		return nil, err
	}

	// Try to acquire a file lock.
	lock, acquiredExistingLock, err := createLockFile(opts)
	if err != nil {
		if err == os.ErrExist {
			err = errLocked
		}
		return nil, errors.Wrap(err, "creating lock file")
	}

	if acquiredExistingLock {
		// Lock file already existed, but the process managed to acquire it.
		// It means the database wasn't closed properly.
		// Start recovery process.
		if err := backupNonsegmentFiles(opts.FileSystem); err != nil {
			return nil, err
		}
	}

	index, err := openIndex(opts)
	if err != nil {
		return nil, errors.Wrap(err, "opening index")
	}

	datalog, err := openDatalog(opts)
	if err != nil {
		return nil, errors.Wrap(err, "opening datalog")
	}

	db := &DB{
		opts:       opts,
		index:      index,
		datalog:    datalog,
		lock:       lock,
		metrics:    &Metrics{},
		syncWrites: opts.BackgroundSyncInterval == -1,
	}
	if index.count() == 0 {
		// The index is empty, make a new hash seed.
		seed, err := hash.RandSeed()
		if err != nil {
			return nil, err
		}
		db.hashSeed = seed
		verifAdjustSeed(db)
	} else {
		if err := db.readMeta(); err != nil {
			return nil, errors.Wrap(err, "reading db meta")
		}
	}

	if acquiredExistingLock {
		if err := db.recover(); err != nil {
			return nil, errors.Wrap(err, "recovering")
		}
	}

	if db.opts.BackgroundSyncInterval > 0 || db.opts.BackgroundCompactionInterval > 0 {
		db.startBackgroundWorker()
	}

	return db, nil
}

func cloneBytes(src []byte) []byte {
	dst := make([]byte, len(src))
	copy(dst, src)
	return dst
}

func (db *DB) writeMeta() error {
	m := dbMeta{
		HashSeed: db.hashSeed,
	}
	return writeGobFile(db.opts.FileSystem, dbMetaName, m)
}

func (db *DB) readMeta() error {
	m := dbMeta{}
	if err := readGobFile(db.opts.FileSystem, dbMetaName, &m); err != nil {
		return err
	}
	db.hashSeed = m.HashSeed
	return nil
}

func (db *DB) hash(data []byte) uint32 {
	return hash.Sum32WithSeed(data, db.hashSeed)
}

// newNullableTicker is a wrapper around time.NewTicker that allows creating a nil ticker.
// A nil ticker never ticks.
func newNullableTicker(d time.Duration) (<-chan time.Time, func()) {
	if d > 0 {
		t := time.NewTicker(d)
		return t.C, t.Stop
	}
	return nil, func() {}
}

func (db *DB) startBackgroundWorker() {
	ctx, cancel := context.WithCancel(context.Background())
	db.cancelBgWorker = cancel
	db.closeWg.Add(1)

	go func() {
		defer db.closeWg.Done()

		syncC, syncStop := newNullableTicker(db.opts.BackgroundSyncInterval)
		defer syncStop()

		compactC, compactStop := newNullableTicker(db.opts.BackgroundCompactionInterval)
		defer compactStop()

		for {
			select {
			case <-ctx.Done():
				return
			case <-syncC:
				if err := db.Sync(); err != nil {
					logger.Printf("error synchronizing database: %v", err)
				}
			case <-compactC:
				if cr, err := db.Compact(); err != nil {
					logger.Printf("error compacting database: %v", err)
				} else if cr.CompactedSegments > 0 {
					logger.Printf("compacted database: %+v", cr)
				}
			}
		}
	}()
}

// Get returns the value for the given key stored in the DB or nil if the key doesn't exist.
func (db *DB) Get(key []byte) ([]byte, error) {
	h := db.hash(key)
	db.metrics.Gets.Add(1)
	db.mu.RLock()
	defer db.mu.RUnlock()
	var retValue []byte
	err := db.index.get(h, func(sl slot) (bool, error) {
		if uint16(len(key)) != sl.keySize {
			return false, nil
		}
		slKey, value, err := db.datalog.readKeyValue(sl)
		if err != nil {
			return true, err
		}
		if bytes.Equal(key, slKey) {
			retValue = cloneBytes(value)
			return true, nil
		}
		db.metrics.HashCollisions.Add(1)
		return false, nil
	})
	if err != nil {
		return nil, err
	}
	return retValue, nil
}

// GetAppend returns the value for the given key (appended into buffer) stored in the DB or nil if the key doesn't exist
func (db *DB) GetAppend(key, buf []byte) ([]byte, error) {
	h := db.hash(key)
	db.metrics.Gets.Add(1)
	db.mu.RLock()
	defer db.mu.RUnlock()
	var retValue []byte
	err := db.index.get(h, func(sl slot) (bool, error) {
		if uint16(len(key)) != sl.keySize {
			return false, nil
		}
		slKey, value, err := db.datalog.readKeyValue(sl)
		if err != nil {
			return true, err
		}
		if bytes.Equal(key, slKey) {
			retValue = append(buf, value...)
			return true, nil
		}
		db.metrics.HashCollisions.Add(1)
		return false, nil
	})
	if err != nil {
		return nil, err
	}
	return retValue, nil
}

// Has returns true if the DB contains the given key.
func (db *DB) Has(key []byte) (bool, error) {
	h := db.hash(key)
	db.metrics.Gets.Add(1)
	found := false
	db.mu.RLock()
	defer db.mu.RUnlock()
	err := db.index.get(h, func(sl slot) (bool, error) {
		if uint16(len(key)) != sl.keySize {
			return false, nil
		}
		slKey, err := db.datalog.readKey(sl)
		if err != nil {
			return true, err
		}
		if bytes.Equal(key, slKey) {
			found = true
			return true, nil
		}
		return false, nil
	})
	if err != nil {
		return false, err
	}
	return found, nil
}

func (db *DB) put(sl slot, key []byte) error {
	return db.index.put(sl, func(cursl slot) (bool, error) {
		if uint16(len(key)) != cursl.keySize {
			return false, nil
		}
		slKey, err := db.datalog.readKey(cursl)
		if err != nil {
			return true, err
		}
		if bytes.Equal(key, slKey) {
			db.datalog.trackDel(cursl) // Overwriting existing key.
			return true, nil
		}
		return false, nil
	})
}

// Put sets the value for the given key. It updates the value for the existing key.
func (db *DB) Put(key []byte, value []byte) error {
	if len(key) > MaxKeyLength {
		return errKeyTooLarge
	}
	if len(value) > MaxValueLength {
		return errValueTooLarge
	}
	h := db.hash(key)
	db.metrics.Puts.Add(1)
	db.mu.Lock()
	defer db.mu.Unlock()

	segID, offset, err := db.datalog.put(key, value)
	if err != nil {
		return err
	}

	sl := slot{
		hash:      h,
		segmentID: segID,
		keySize:   uint16(len(key)),
		valueSize: uint32(len(value)),
		offset:    offset,
	}

	if err := db.put(sl, key); err != nil {
		return err
	}

	if db.syncWrites {
		return db.sync()
	}
	return nil
}

func (db *DB) del(h uint32, key []byte, writeWAL bool) error {
	err := db.index.delete(h, func(sl slot) (b bool, e error) {
		if uint16(len(key)) != sl.keySize {
			return false, nil
		}
		slKey, err := db.datalog.readKey(sl)
		if err != nil {
			return true, err
		}
		if bytes.Equal(key, slKey) {
			db.datalog.trackDel(sl)
			var err error
			if writeWAL {
				err = db.datalog.del(key)
			}
			return true, err
		}
		return false, nil
	})
	return err
}

// Delete deletes the given key from the DB.
func (db *DB) Delete(key []byte) error {
	h := db.hash(key)
	db.metrics.Dels.Add(1)
	db.mu.Lock()
	defer db.mu.Unlock()
	if err := db.del(h, key, true); err != nil {
		return err
	}
	if db.syncWrites {
		return db.sync()
	}
	return nil
}

// Close closes the DB.
func (db *DB) Close() error {
	if db.cancelBgWorker != nil {
		db.cancelBgWorker()
	}
	db.closeWg.Wait()
	db.mu.Lock()
	defer db.mu.Unlock()
	if err := db.writeMeta(); err != nil {
		return err
	}
	if err := db.datalog.close(); err != nil {
		return err
	}
	if err := db.index.close(); err != nil {
		return err
	}
	if err := db.lock.Unlock(); err != nil {
		return err
	}
	return nil
}

func (db *DB) sync() error {
	return db.datalog.sync()
}

// Items returns a new ItemIterator.
func (db *DB) Items() *ItemIterator {
	return &ItemIterator{db: db}
}

// Sync commits the contents of the database to the backing FileSystem.
func (db *DB) Sync() error {
	db.mu.Lock()
	defer db.mu.Unlock()
	return db.sync()
}

// Count returns the number of keys in the DB.
func (db *DB) Count() uint32 {
	db.mu.RLock()
	defer db.mu.RUnlock()
	return db.index.count()
}

// Metrics returns the DB metrics.
func (db *DB) Metrics() *Metrics {
	return db.metrics
}

// FileSize returns the total size of the disk storage used by the DB.
func (db *DB) FileSize() (int64, error) {
	var size int64
	files, err := db.opts.FileSystem.ReadDir(".")
	if err != nil {
		return 0, err
	}
	for _, file := range files {
		info, err := file.Info()
		if err != nil {
			return 0, err
		}
		size += info.Size()
	}
	return size, nil
}
