#!/bin/bash
# One-time generation of /verif/golden with the PINNED version of pogreb (+ the add-only verif hooks):
# commit 022be4b = pinned snapshot 0e387fd plus the hooks commit only, no fix commit.
set -eu
export GOFLAGS=-mod=mod GOPROXY=off GOSUMDB=off GOTOOLCHAIN=local
PIN=022be4b
wt=/tmp/wt/golden
git -C /repo worktree remove --force $wt >/dev/null 2>&1 || true
git -C /repo worktree add -q --detach $wt $PIN
tmp=$(mktemp -d /dev/shm/golden.XXXX)
sed "s#=> /repo#=> $wt#" /verif/harness/go.mod > $tmp/alt.mod
cp /verif/harness/go.sum $tmp/alt.sum
( cd /verif/harness && go test -tags verif -modfile $tmp/alt.mod -c -o $tmp/gen.test ./checks )
rm -rf /verif/golden && mkdir -p /verif/golden
( cd $tmp && VERIF_SCRATCH=$tmp VERIF_OUT=$tmp VERIF_GEN_GOLDEN=/verif/golden VERIF_GOLDEN_WRITER="akrylysov/pogreb @ 0e387fd (pinned) + verif hooks commit $PIN" ./gen.test -test.run '^TestGenGolden$' -test.v | tail -5 )
rm -rf $tmp
git -C /repo worktree remove --force $wt
du -sh /verif/golden; ls /verif/golden | wc -l
