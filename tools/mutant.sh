#!/bin/bash
# Development aid: run checks against a scratch worktree of /repo with a change applied.
#   tools/mutant.sh <name> '<shell command that edits the tree, run inside the worktree>' <check ids...>
# The worktree lives under /tmp/wt/<name> and is removed afterwards. /repo is never touched.
set -u
name=$1; edit=$2; shift 2
wt=/tmp/wt/$name
mkdir -p /tmp/wt
git -C /repo worktree remove --force $wt >/dev/null 2>&1
git -C /repo worktree add -q --detach $wt HEAD || exit 2
( cd $wt && eval "$edit" ) || { echo "edit failed"; git -C /repo worktree remove --force $wt; exit 2; }
( cd $wt && git diff --stat | tail -1 )
if [ "${MUT_SKIP_TESTS:-}" = "" ]; then
  ( cd $wt && go build ./... && go test -vet=off -count=1 ./... 2>&1 | grep -v "^ok" | head -5 ; echo "[existing tests done]" )
fi
rc=0
for c in "$@"; do
  out=$(cd /verif && VERIF_REPO=$wt VERIF_SEED=${VERIF_SEED:-1} ./check $c ${MUT_TIER:-quick} 2>&1 | grep -E "^(VIOLATION|OK|INCONCLUSIVE|KNOWN|BUILD)" | head -3)
  echo "$c: $out"
done
git -C /repo worktree remove --force $wt
