package checks

import (
	"fmt"
	"os"
	"path/filepath"
	"sort"
	"strings"
	"testing"

	"github.com/akrylysov/pogreb"
	pfs "github.com/akrylysov/pogreb/fs"

	"verif/harness/core"
	"verif/harness/dbx"
)

// ---------------------------------------------------------------------------------------------
// C13 part 1: lock-step explorer. Several actors open / write / close / get killed on one real
// directory. The schedule is owned by the harness: an actor runs until the next yield point
// between two system calls of lock acquisition or release (verif hook in fs/os_unix.go, fs/os.go)
// or until the end of its API call, then parks; rapid draws which actor moves next. The
// interleaving of the system calls is therefore a generated input that shrinks and replays.

type lockEvent struct {
	kind  string // "yield", "stepdone", "finished"
	point string
}

type lockActor struct {
	id        int
	script    []string // "open", "put", "close", "kill"
	resume    chan struct{}
	event     chan lockEvent
	db        *pogreb.DB
	state     string // "idle", "opening", "open", "closing", "done"
	lastErr   error
	recov     bool   // the last successful Open ran recovery
	logs      string // log text produced while this actor was running its current step
	created   bool   // during its last failed or current Open attempt the actor created the lock file itself
	createdAt int    // scheduling step at which it did
	sawOpen   bool   // during the current Open attempt the actor opened an existing lock file
	lastPt    string
	puts      int
	finished  bool
}

type lockWorld struct {
	ch      core.Chooser
	dir     string
	cfg     dbx.Config
	fsys    pfs.FileSystem
	actors  []*lockActor
	current *lockActor
	model   map[string]string
	lastEnd string // "none", "clean", "unclean": how the last session ended
	trace   []string
	// classification
	cleanAt           int // scheduling step at which the directory last became clean
	lastCreator       int // actor that last created the lock file itself, and when
	lastCreatedAt     int
	steps             int
	yieldsInterleaved int
	opensWhileClosing int
	lockedErrors      int
	recoveries        int
}

func (w *lockWorld) note(format string, args ...interface{}) {
	s := fmt.Sprintf(format, args...)
	w.trace = append(w.trace, s)
	w.ch.Note("%s", s)
}

func (a *lockActor) run(w *lockWorld) {
	<-a.resume
	i := 0
	for i < len(a.script) {
		step := a.script[i]
		i++
		switch step {
		case "open":
			a.state = "opening"
			a.created, a.sawOpen = false, false
			db, err := dbx.Open(w.dir, w.cfg, w.fsys)
			a.lastErr = err
			if err == nil {
				a.db = db
				a.state = "open"
			} else {
				a.state = "idle"
				// skip the rest of this session
				for i < len(a.script) && a.script[i] != "open" {
					i++
				}
			}
		case "put":
			a.puts++
			k := fmt.Sprintf("actor%d-key%d", a.id, a.puts)
			v := mkValue(a.id*1000+a.puts, 20+a.puts)
			a.lastErr = core.Safe(func() error { return a.db.Put([]byte(k), []byte(v)) })
			if a.lastErr == nil {
				w.model[k] = v
			}
		case "close":
			a.state = "closing"
			a.lastErr = core.Safe(func() error { return a.db.Close() })
			a.db = nil
			a.state = "idle"
		case "kill":
			// the process dies: descriptors are closed by the kernel, nothing else happens
			_ = core.Safe(func() error { a.db.VerifKill(); return nil })
			a.db = nil
			a.state = "idle"
			a.lastErr = nil
		}
		a.event <- lockEvent{kind: "stepdone", point: step}
		<-a.resume
	}
	a.finished = true
	a.event <- lockEvent{kind: "finished"}
}

func lockInode(path string) (uint64, bool) {
	fi, err := os.Stat(path)
	if err != nil {
		return 0, false
	}
	return inodeOf(fi), true
}

func drawLockScript(ch core.Chooser, id int) []string {
	var s []string
	for r, rounds := 0, ch.Int(fmt.Sprintf("rounds%d", id), 1, 2); r < rounds; r++ {
		s = append(s, "open")
		for p, n := 0, ch.Int("puts", 0, 2); p < n; p++ {
			s = append(s, "put")
		}
		if core.Pct(ch, "kill", 25) {
			s = append(s, "kill")
		} else {
			s = append(s, "close")
		}
	}
	return s
}

// known finding signature of the residual shape described in DESIGN.md (C13).
const c13KeySpuriousRecovery = "C13-recovery-after-clean-close-lock-file-created-by-competing-opener"

func propC13Steps(ch core.Chooser, st *core.Stats) error {
	kind := drawEnvKind(ch, []string{"os", "mmap"})
	env := NewEnv(kind)
	defer env.Cleanup()
	w := &lockWorld{ch: ch, dir: env.Dir, fsys: env.FS, model: map[string]string{}, lastEnd: "none", lastCreator: -1,
		cfg: dbx.Config{SegSize: 4096, MinSeg: 520, Frag: 0.02}}
	pinSeed(7)
	n := ch.Int("actors", 2, core.Scale(3, 4))
	for i := 0; i < n; i++ {
		a := &lockActor{id: i, script: drawLockScript(ch, i), resume: make(chan struct{}), event: make(chan lockEvent), state: "idle"}
		w.actors = append(w.actors, a)
		ch.Note("actor %d script: %s", i, strings.Join(a.script, " "))
	}
	// optionally the directory starts with a stale lock file of a killed process
	if core.Pct(ch, "start_unclean", 25) {
		db, err := dbx.Open(w.dir, w.cfg, w.fsys)
		if err != nil {
			return &core.Inconclusive{Msg: err.Error()}
		}
		_ = db.Put([]byte("initial"), []byte("value"))
		w.model["initial"] = "value"
		db.VerifKill()
		w.lastEnd = "unclean"
		ch.Note("directory starts with the lock file of a killed process")
	}
	lockPath := filepath.Join(w.dir, "lock")
	pfs.VerifLockYield = func(point string) {
		a := w.current
		if a == nil {
			return
		}
		a.event <- lockEvent{kind: "yield", point: point}
		<-a.resume
	}
	defer func() { pfs.VerifLockYield = nil }()
	for _, a := range w.actors {
		go a.run(w)
	}
	// make sure no goroutine stays parked when the case ends early
	defer func() {
		w.current = nil
		pfs.VerifLockYield = nil
		for _, a := range w.actors {
			for !a.finished {
				select {
				case a.resume <- struct{}{}:
				case <-a.event:
				}
			}
		}
		for _, a := range w.actors {
			if a.db != nil {
				_ = core.Safe(func() error { a.db.VerifKill(); return nil })
			}
		}
	}()
	var holderIno uint64
	var holder *lockActor
	steps := 0
	for {
		var runnable []*lockActor
		for _, a := range w.actors {
			if !a.finished {
				runnable = append(runnable, a)
			}
		}
		if len(runnable) == 0 {
			break
		}
		a := runnable[ch.Int("sched", 0, len(runnable)-1)]
		steps++
		if steps > 2000 {
			return fmt.Errorf("an Open does not terminate: more than 2000 scheduling steps (lock acquisition retries without end)")
		}
		mark := len(dbx.LogText())
		w.current = a
		a.resume <- struct{}{}
		ev := <-a.event
		w.current = nil
		if lt := dbx.LogText(); len(lt) > mark {
			a.logs += lt[mark:]
		}
		switch ev.kind {
		case "finished":
			continue
		case "yield":
			w.note("actor %d (%s) -> before %s", a.id, a.state, ev.point)
			if a.state == "opening" {
				if ev.point == "create" {
					// a new iteration of the acquisition loop: the flags describe the file
					// the opener ends up holding, not what it did in earlier iterations
					a.created, a.sawOpen = false, false
				}
				if ev.point == "open" {
					a.sawOpen = true
				}
				if ev.point == "flock" && a.lastPt == "create" {
					a.created, a.createdAt = true, steps
					w.lastCreator, w.lastCreatedAt = a.id, steps
				}
				for _, b := range w.actors {
					if b != a && b.state == "closing" {
						w.opensWhileClosing++
					}
				}
			}
			a.lastPt = ev.point
			w.yieldsInterleaved++
		case "stepdone":
			a.lastPt = ""
			switch ev.point {
			case "open":
				ran := strings.Contains(a.logs, "started recovery")
				a.logs = ""
				if a.lastErr != nil {
					if !strings.Contains(a.lastErr.Error(), "locked") {
						return fmt.Errorf("Open by actor %d failed with an error other than 'locked': %v\nschedule:\n%s", a.id, a.lastErr, strings.Join(w.trace, "\n"))
					}
					w.lockedErrors++
					w.note("actor %d: Open -> locked", a.id)
					break
				}
				w.note("actor %d: Open -> ok (recovery=%v, directory was %s)", a.id, ran, w.lastEnd)
				// (i) at most one open handle
				var open []int
				for _, b := range w.actors {
					if b.state == "open" {
						open = append(open, b.id)
					}
				}
				if len(open) > 1 {
					return fmt.Errorf("actors %v hold successfully opened handles of the same directory at the same time\nschedule:\n%s", open, strings.Join(w.trace, "\n"))
				}
				holder = a
				selfCreated := a.created
				a.created = false
				ino, ok := lockInode(lockPath)
				holderIno = ino
				if !ok {
					// the holder's lock protects nothing: confirm with a fresh opener
					if err := w.probe(a, "the lock file does not exist although actor %d has just opened the database"); err != nil {
						return err
					}
				}
				// (iii) recovery exactly after an unclean end
				want := w.lastEnd == "unclean"
				if ran != want {
					if ran && !selfCreated && a.sawOpen && w.competitorCreated(a) {
						st.KnownFinding(c13KeySpuriousRecovery)
						if !knownOpen(c13KeySpuriousRecovery) {
							return core.Violationf(c13KeySpuriousRecovery, "actor %d ran recovery although the last session completed Close: it locked a lock file that a competing opener had just created and not yet locked\nschedule:\n%s", a.id, strings.Join(w.trace, "\n"))
						}
					} else {
						return fmt.Errorf("actor %d: Open ran recovery = %v, but the last session ended %s\nschedule:\n%s", a.id, ran, w.lastEnd, strings.Join(w.trace, "\n"))
					}
				}
				if ran {
					w.recoveries++
				}
				w.lastEnd = "unclean" // until this session completes Close
				if err := dbx.CheckAll(a.db, w.model, nil); err != nil {
					return fmt.Errorf("actor %d after Open (recovery=%v): %v\nschedule:\n%s", a.id, ran, err, strings.Join(w.trace, "\n"))
				}
			case "put":
				if a.lastErr != nil {
					return fmt.Errorf("actor %d: Put failed: %v", a.id, a.lastErr)
				}
			case "close":
				if a.lastErr != nil {
					return fmt.Errorf("actor %d: Close failed: %v\nschedule:\n%s", a.id, a.lastErr, strings.Join(w.trace, "\n"))
				}
				w.note("actor %d: Close -> ok", a.id)
				if holder == a {
					holder = nil
					w.lastEnd, w.cleanAt = "clean", steps
				}
			case "kill":
				w.note("actor %d: killed", a.id)
				if holder == a {
					holder = nil
					w.lastEnd = "unclean"
				}
			}
		}
		// a closing holder has given up the directory as soon as it has removed the lock file
		if holder != nil && holder.state == "closing" && ev.kind == "yield" && ev.point == "close" && a == holder {
			holder = nil
			w.lastEnd, w.cleanAt = "clean", steps
		}
		// (ii) while a handle is open the lock path names the file its owner has locked
		if holder != nil && holder.state == "open" {
			if ino, ok := lockInode(lockPath); !ok || ino != holderIno {
				if err := w.probe(holder, "the lock path does not name the file actor %d has locked any more"); err != nil {
					return err
				}
				holderIno, _ = lockInode(lockPath)
			}
		}
	}
	pfs.VerifLockYield = nil
	// final session by the harness itself, no interleaving
	dbx.ResetLog()
	db, err := dbx.Open(w.dir, w.cfg, w.fsys)
	if err != nil {
		return fmt.Errorf("final Open failed: %v\nschedule:\n%s", err, strings.Join(w.trace, "\n"))
	}
	defer func() { _ = core.Safe(func() error { return db.Close() }) }()
	if ran, want := dbx.RecoveryRan(), w.lastEnd == "unclean"; ran != want {
		return fmt.Errorf("final Open ran recovery = %v, but the last session ended %s\nschedule:\n%s", ran, w.lastEnd, strings.Join(w.trace, "\n"))
	}
	if err := dbx.CheckAll(db, w.model, nil); err != nil {
		return fmt.Errorf("final Open: %v\nschedule:\n%s", err, strings.Join(w.trace, "\n"))
	}
	st.Eval(1)
	st.Count("scheduling_steps", int64(steps))
	st.Count("lock_yield_points_passed", int64(w.yieldsInterleaved))
	st.Count("open_attempts_locked", int64(w.lockedErrors))
	st.Count("opens_with_recovery", int64(w.recoveries))
	if w.opensWhileClosing > 0 {
		st.Count("schedules_with_opener_steps_during_a_close", 1)
		st.Nontrivial(core.FingerprintOf(ch))
		if st.WantSample() {
			st.Sample(map[string]interface{}{"schedule": w.trace, "actors": n})
		}
	}
	return nil
}

// competitorCreated reports whether another actor is inside (or has just failed) an Open attempt
// in which it created the lock file itself.
func (w *lockWorld) competitorCreated(a *lockActor) bool {
	return w.lastCreatedAt > w.cleanAt && w.lastCreator != a.id
}

// probe confirms a suspected unprotected handle: a fresh opener, run without interleaving, must
// still be refused while the handle of owner is open.
func (w *lockWorld) probe(owner *lockActor, why string) error {
	db, err := dbx.Open(w.dir, w.cfg, w.fsys)
	if err == nil {
		db.VerifKill()
		return fmt.Errorf(why+": a further Open of the directory succeeded while that handle is open - two open handles\nschedule:\n%s", owner.id, strings.Join(w.trace, "\n"))
	}
	return nil
}

func knownOpen(key string) bool {
	for _, k := range strings.Split(os.Getenv("VERIF_KNOWN_OPEN"), ",") {
		if k == key {
			return true
		}
	}
	return false
}

func TestC13Steps(t *testing.T) { core.Run(t, "C13", "C13steps", propC13Steps) }

// ---------------------------------------------------------------------------------------------
// C13 part 2: sequential sessions with clean and unclean ends on every file system; while a
// handle is open a competing Open must fail with the 'locked' error and leave the directory
// (names and bytes) untouched.

func dirDigest(e *Env) (string, error) {
	files, err := e.Files()
	if err != nil {
		return "", err
	}
	var names []string
	for n := range files {
		names = append(names, n)
	}
	sort.Strings(names)
	var sb strings.Builder
	for _, n := range names {
		fmt.Fprintf(&sb, "%s:%d:%x;", n, len(files[n]), core.HashBytes(files[n]))
	}
	return sb.String(), nil
}

func propC13Seq(ch core.Chooser, st *core.Stats) error {
	kind := drawEnvKind(ch, []string{"os", "mmap", "mem", "fault"})
	env := NewEnv(kind)
	defer env.Cleanup()
	pinSeed(uint32(ch.Int("hashseed", 0, 1<<20)))
	cfg := dbx.DrawConfig(ch, []int{1024, 4096, 65536})
	ch.Note("config: %s fs=%s", cfg, kind)
	model := map[string]string{}
	lastEnd := "none"
	sessions := ch.Int("sessions", 1, core.Scale(5, 8))
	competing, uncleanEnds := 0, 0
	for s := 0; s < sessions; s++ {
		dbx.ResetLog()
		db, err := dbx.Open(env.Dir, cfg, env.FS)
		if err != nil {
			return fmt.Errorf("session %d: Open failed after a %s end: %v", s, lastEnd, err)
		}
		if ran, want := dbx.RecoveryRan(), lastEnd == "unclean"; ran != want {
			_ = db.Close()
			return fmt.Errorf("session %d: Open ran recovery = %v, but the last session ended %s", s, ran, lastEnd)
		}
		if err := dbx.CheckAll(db, model, nil); err != nil {
			_ = db.Close()
			return fmt.Errorf("session %d after a %s end: %v", s, lastEnd, err)
		}
		for i, n := 0, ch.Int("ops", 0, 12); i < n; i++ {
			k := fmt.Sprintf("k%d", ch.Int("key", 0, 30))
			if core.Pct(ch, "del", 25) {
				ch.Note("session %d: delete %s", s, k)
				if err := db.Delete([]byte(k)); err != nil {
					return fmt.Errorf("Delete: %v", err)
				}
				delete(model, k)
			} else {
				v := mkValue(s*100+i, core.PickInt(ch, "vlen", []int{0, 10, 300, 900}))
				ch.Note("session %d: put %s len=%d", s, k, len(v))
				if err := db.Put([]byte(k), []byte(v)); err != nil {
					return fmt.Errorf("Put: %v", err)
				}
				model[k] = v
			}
			if core.Pct(ch, "compete", 30) {
				// a competing Open while the handle is open (idle)
				before, err := dirDigest(env)
				if err != nil {
					return &core.Inconclusive{Msg: err.Error()}
				}
				db2, err := dbx.Open(env.Dir, cfg, env.FS)
				if err == nil {
					db2.VerifKill()
					_ = db.Close()
					return fmt.Errorf("session %d: a second Open of the directory succeeded while the first handle is open", s)
				}
				if !strings.Contains(err.Error(), "locked") {
					_ = db.Close()
					return fmt.Errorf("session %d: competing Open failed with %q, want the 'locked' error", s, err)
				}
				after, err := dirDigest(env)
				if err != nil {
					return &core.Inconclusive{Msg: err.Error()}
				}
				if before != after {
					_ = db.Close()
					return fmt.Errorf("session %d: the failed competing Open changed the directory:\nbefore %s\nafter  %s", s, before, after)
				}
				competing++
			}
		}
		if core.Pct(ch, "unclean", 40) {
			ch.Note("session %d: killed", s)
			db.VerifKill()
			if env.Fault != nil {
				env.Fault.KillLocks()
			}
			lastEnd = "unclean"
			uncleanEnds++
		} else {
			ch.Note("session %d: close", s)
			if err := db.Close(); err != nil {
				return fmt.Errorf("session %d: Close failed: %v", s, err)
			}
			lastEnd = "clean"
		}
	}
	// leave the directory closed
	if lastEnd == "unclean" {
		db, err := dbx.Open(env.Dir, cfg, env.FS)
		if err != nil {
			return fmt.Errorf("final Open failed: %v", err)
		}
		if err := dbx.CheckAll(db, model, nil); err != nil {
			_ = db.Close()
			return fmt.Errorf("final Open: %v", err)
		}
		_ = db.Close()
	}
	st.Eval(1)
	st.Count("seq_sessions", int64(sessions))
	st.Count("seq_competing_opens_refused", int64(competing))
	st.Count("seq_unclean_ends", int64(uncleanEnds))
	st.Count("seq_fs_"+kind, 1)
	if competing > 0 && uncleanEnds > 0 && sessions >= 2 {
		st.Nontrivial(core.FingerprintOf(ch))
	}
	return nil
}

func TestC13Seq(t *testing.T) { core.Run(t, "C13", "C13seq", propC13Seq) }
