package checks

import (
	"testing"

	"verif/harness/core"
)

var histSegSizes = []int{600, 1024, 2048, 4096, 65536, 1 << 22}

// C01: map semantics for every history, key set and hash layout.
func propC01(ch core.Chooser, st *core.Stats) error {
	kinds := []string{"fault", "fault", "mem", "os", "mmap"}
	h, err := newHist(ch, st, kinds, histSegSizes)
	if err != nil {
		return err
	}
	defer h.close()
	err = h.phases(core.Scale(8, 14), core.Scale(500, 2000), []int{6, 3, 6, 2, 1, 0, 3})
	if err != nil {
		return err
	}
	h.classify()
	if h.maxOverflow > 0 && (h.reputAfterHole > 0 || h.splitWithHole > 0 || h.freeReuse > 0) {
		st.Nontrivial(core.FingerprintOf(ch))
		if st.WantSample() {
			st.Sample(map[string]interface{}{"history": core.NotesOf(ch, 40), "steps": h.step, "overflow_buckets": h.maxOverflow,
				"buckets": h.maxBuckets, "reput_after_hole": h.reputAfterHole, "split_with_hole": h.splitWithHole, "free_reuse": h.freeReuse})
		}
	}
	return nil
}

func TestC01(t *testing.T) { core.Run(t, "C01", "C01", propC01) }

// C02: clean restart preserves exactly the closed contents.
func propC02(ch core.Chooser, st *core.Stats) error {
	kinds := []string{"fault", "mem", "os", "mmap", "os", "mmap"}
	h, err := newHist(ch, st, kinds, histSegSizes)
	if err != nil {
		return err
	}
	defer h.close()
	h.switchFS = true
	err = h.phases(core.Scale(10, 16), core.Scale(400, 1500), []int{5, 2, 5, 2, 4, 2, 2, 3})
	if err != nil {
		return err
	}
	// always end with a restart so that the final state is persisted and reloaded
	if err := h.restart(core.Bool(ch, "finalnowrite")); err != nil {
		return err
	}
	h.classify()
	if h.ntRestarts > 0 {
		st.Nontrivial(core.FingerprintOf(ch))
		if st.WantSample() {
			st.Sample(map[string]interface{}{"history": core.NotesOf(ch, 40), "steps": h.step, "restarts": h.restarts, "nontrivial_restarts": h.ntRestarts, "fs": h.env.Kind})
		}
	}
	return nil
}

func TestC02(t *testing.T) { core.Run(t, "C02", "C02", propC02) }
