// Package dbx wraps the pogreb API for the checks: configuration, panic-safe calls, full
// read-back, comparison with a reference map, index invariants and recovery detection.
package dbx

import (
	"bytes"
	"fmt"
	"log"
	"sort"
	"strings"
	"sync"

	"github.com/akrylysov/pogreb"
	pfs "github.com/akrylysov/pogreb/fs"

	"verif/harness/core"
)

// Config is the drawn configuration of a database.
type Config struct {
	SegSize    uint32
	MinSeg     uint32
	Frag       float32
	SyncWrites bool
}

func (c Config) String() string {
	return fmt.Sprintf("seg=%d minseg=%d frag=%.2f syncw=%v", c.SegSize, c.MinSeg, c.Frag, c.SyncWrites)
}

// Options builds pogreb options for a file system.
func (c Config) Options(fsys pfs.FileSystem) *pogreb.Options {
	o := &pogreb.Options{FileSystem: fsys}
	if c.SyncWrites {
		o.BackgroundSyncInterval = -1
	}
	return pogreb.VerifThresholds(o, c.SegSize, c.MinSeg, c.Frag)
}

// DrawConfig draws a configuration with small segments.
func DrawConfig(ch core.Chooser, segSizes []int) Config {
	c := Config{SegSize: uint32(core.PickInt(ch, "segsize", segSizes))}
	c.MinSeg = uint32(core.PickInt(ch, "minseg", []int{520, 520, 600, 1024}))
	c.Frag = []float32{0.02, 0.02, 0.1, 0.3, 0.5}[ch.Int("frag", 0, 4)]
	return c
}

// Open opens a database, converting panics into errors.
func Open(path string, c Config, fsys pfs.FileSystem) (db *pogreb.DB, err error) {
	err = core.Safe(func() error {
		var e error
		db, e = pogreb.Open(path, c.Options(fsys))
		return e
	})
	return
}

// logCapture captures pogreb's global logger.
type logCapture struct {
	mu  sync.Mutex
	buf bytes.Buffer
}

func (l *logCapture) Write(p []byte) (int, error) {
	l.mu.Lock()
	defer l.mu.Unlock()
	if l.buf.Len() < 1<<20 {
		l.buf.Write(p)
	}
	return len(p), nil
}

var capture = &logCapture{}

func init() {
	pogreb.SetLogger(log.New(capture, "", 0))
}

// ResetLog clears the captured log.
func ResetLog() {
	capture.mu.Lock()
	capture.buf.Reset()
	capture.mu.Unlock()
}

// LogText returns the captured log.
func LogText() string {
	capture.mu.Lock()
	defer capture.mu.Unlock()
	return capture.buf.String()
}

// RecoveryRan reports whether recovery was started since the last ResetLog.
func RecoveryRan() bool {
	return strings.Contains(LogText(), "started recovery")
}

// Dump reads the whole database through Items and cross-checks Count.
func Dump(db *pogreb.DB) (m map[string]string, err error) {
	err = core.Safe(func() error {
		m = map[string]string{}
		it := db.Items()
		n := 0
		for {
			k, v, e := it.Next()
			if e == pogreb.ErrIterationDone {
				break
			}
			if e != nil {
				return fmt.Errorf("Items.Next: %v", e)
			}
			if old, dup := m[string(k)]; dup {
				return fmt.Errorf("Items scan returned key %s twice (values %s and %s)", K(string(k)), V(old), V(string(v)))
			}
			m[string(k)] = string(v)
			n++
			if n > 10_000_000 {
				return fmt.Errorf("Items scan does not terminate")
			}
		}
		for i := 0; i < 2; i++ {
			if _, _, e := it.Next(); e != pogreb.ErrIterationDone {
				return fmt.Errorf("Next after the end of the scan returned %v, want ErrIterationDone", e)
			}
		}
		if c := int(db.Count()); c != n {
			return fmt.Errorf("Count()=%d but a full scan returned %d pairs", c, n)
		}
		return nil
	})
	return
}

// K renders a key for messages.
func K(k string) string {
	if len(k) > 24 {
		return fmt.Sprintf("%x..(%dB)", k[:12], len(k))
	}
	printable := true
	for i := 0; i < len(k); i++ {
		if k[i] < 32 || k[i] > 126 {
			printable = false
		}
	}
	if printable {
		return fmt.Sprintf("%q", k)
	}
	return fmt.Sprintf("x%x", k)
}

// V renders a value for messages.
func V(v string) string {
	if len(v) > 16 {
		return fmt.Sprintf("%q..(%dB)", v[:16], len(v))
	}
	return fmt.Sprintf("%q", v)
}

// Equal compares two contents.
func Equal(a, b map[string]string) bool {
	if len(a) != len(b) {
		return false
	}
	for k, v := range a {
		if w, ok := b[k]; !ok || w != v {
			return false
		}
	}
	return true
}

// Diff describes the difference got vs want (bounded).
func Diff(got, want map[string]string) string {
	var out []string
	var keys []string
	seen := map[string]bool{}
	for k := range got {
		keys = append(keys, k)
		seen[k] = true
	}
	for k := range want {
		if !seen[k] {
			keys = append(keys, k)
		}
	}
	sort.Strings(keys)
	for _, k := range keys {
		g, gok := got[k]
		w, wok := want[k]
		switch {
		case gok && !wok:
			out = append(out, fmt.Sprintf("key %s present with %s, want absent", K(k), V(g)))
		case !gok && wok:
			out = append(out, fmt.Sprintf("key %s absent, want %s", K(k), V(w)))
		case g != w:
			out = append(out, fmt.Sprintf("key %s = %s, want %s", K(k), V(g), V(w)))
		}
		if len(out) >= 8 {
			out = append(out, "...")
			break
		}
	}
	return strings.Join(out, "; ")
}

// Clone copies contents.
func Clone(m map[string]string) map[string]string {
	c := make(map[string]string, len(m))
	for k, v := range m {
		c[k] = v
	}
	return c
}

// CheckPoint verifies Get, GetAppend and Has of one key against the model.
func CheckPoint(db *pogreb.DB, model map[string]string, key string) error {
	return core.Safe(func() error {
		want, ok := model[key]
		got, err := db.Get([]byte(key))
		if err != nil {
			return fmt.Errorf("Get(%s): %v", K(key), err)
		}
		if ok {
			if got == nil {
				return fmt.Errorf("Get(%s) = nil, want %s", K(key), V(want))
			}
			if string(got) != want {
				return fmt.Errorf("Get(%s) = %s, want %s", K(key), V(string(got)), V(want))
			}
		} else if got != nil {
			return fmt.Errorf("Get(%s) = %s, want nil (key absent)", K(key), V(string(got)))
		}
		has, err := db.Has([]byte(key))
		if err != nil {
			return fmt.Errorf("Has(%s): %v", K(key), err)
		}
		if has != ok {
			return fmt.Errorf("Has(%s) = %v, want %v", K(key), has, ok)
		}
		prefix := []byte("PFX:")
		buf := make([]byte, len(prefix), len(prefix)+8)
		copy(buf, prefix)
		ga, err := db.GetAppend([]byte(key), buf)
		if err != nil {
			return fmt.Errorf("GetAppend(%s): %v", K(key), err)
		}
		if ok {
			if string(ga) != "PFX:"+want {
				return fmt.Errorf("GetAppend(%s) = %s, want prefix+%s", K(key), V(string(ga)), V(want))
			}
		} else if ga != nil {
			return fmt.Errorf("GetAppend(%s) = %s, want nil (key absent)", K(key), V(string(ga)))
		}
		return nil
	})
}

// CheckAll verifies a full scan, Count and point reads of every key in keys against model.
func CheckAll(db *pogreb.DB, model map[string]string, keys []string) error {
	got, err := Dump(db)
	if err != nil {
		return err
	}
	if !Equal(got, model) {
		return fmt.Errorf("contents differ from the reference: %s", Diff(got, model))
	}
	for _, k := range keys {
		if err := CheckPoint(db, model, k); err != nil {
			return err
		}
	}
	return nil
}

// IndexStats describes the shape of the index (for non-triviality classification).
type IndexStats struct {
	Buckets         int
	OverflowBuckets int
	MaxChain        int
	Level           int
	SplitIdx        int
	Free            int
	HoleBeforeUsed  bool // a chain has a non-full bucket followed by a bucket with used slots
}

// CheckIndex walks the index and verifies its structural invariants.
func CheckIndex(db *pogreb.DB) (IndexStats, error) {
	var st IndexStats
	err := core.Safe(func() error {
		d, cut, err := db.VerifIndexDump(100000)
		if err != nil {
			return fmt.Errorf("index dump: %v", err)
		}
		if cut {
			return fmt.Errorf("index chain is cyclic")
		}
		seed := db.VerifHashSeed()
		st.Buckets = int(d.NumBuckets)
		st.Level = int(d.Level)
		st.SplitIdx = int(d.SplitBucketIdx)
		st.Free = len(d.FreeBuckets)
		if want := int64(512) + int64(d.NumBuckets)*512; d.MainSize != want {
			return fmt.Errorf("main index size %d, want %d for %d buckets", d.MainSize, want, d.NumBuckets)
		}
		if d.NumBuckets != (1<<d.Level)+d.SplitBucketIdx {
			return fmt.Errorf("numBuckets %d != 2^level(%d) + split(%d)", d.NumBuckets, d.Level, d.SplitBucketIdx)
		}
		linked := map[int64]bool{}
		keys := map[string]bool{}
		slots := 0
		for bi, chain := range d.Chains {
			if len(chain) > st.MaxChain {
				st.MaxChain = len(chain)
			}
			sawFree := false
			for ci, b := range chain {
				if ci > 0 {
					if !b.Overflow {
						return fmt.Errorf("chain %d: bucket %d not in overflow file", bi, ci)
					}
					if linked[b.Offset] {
						return fmt.Errorf("overflow bucket at %d linked twice", b.Offset)
					}
					linked[b.Offset] = true
					st.OverflowBuckets++
					if b.Offset < 512 || (b.Offset-512)%512 != 0 || b.Offset+512 > d.OverflowSize {
						return fmt.Errorf("overflow bucket offset %d out of range (file size %d)", b.Offset, d.OverflowSize)
					}
				}
				hole := false
				used := 0
				for i, sl := range b.Slots {
					if sl.Offset == 0 {
						hole = true
						continue
					}
					if hole {
						return fmt.Errorf("chain %d bucket %d: used slot %d after an empty slot", bi, ci, i)
					}
					used++
					if got := db.VerifBucketIndex(sl.Hash); int(got) != bi {
						return fmt.Errorf("slot with hash %08x stored in chain %d, its hash addresses bucket %d", sl.Hash, bi, got)
					}
					k, _, err := db.VerifReadSlot(sl)
					if err != nil {
						return fmt.Errorf("slot (seg %d off %d) unreadable: %v", sl.SegmentID, sl.Offset, err)
					}
					if int(sl.KeySize) != len(k) {
						return fmt.Errorf("slot key size mismatch")
					}
					if pogreb.VerifHash(k, seed) != sl.Hash {
						return fmt.Errorf("slot hash %08x does not match its key %s", sl.Hash, K(string(k)))
					}
					if keys[string(k)] {
						return fmt.Errorf("key %s has two slots in the index", K(string(k)))
					}
					keys[string(k)] = true
					slots++
				}
				if used > 0 && sawFree {
					st.HoleBeforeUsed = true
				}
				if used < len(b.Slots) {
					sawFree = true
				}
			}
		}
		if uint32(slots) != d.NumKeys {
			return fmt.Errorf("index holds %d slots but counts %d keys", slots, d.NumKeys)
		}
		free := map[int64]bool{}
		for _, off := range d.FreeBuckets {
			if linked[off] {
				return fmt.Errorf("free overflow bucket %d is linked in a chain", off)
			}
			if free[off] {
				return fmt.Errorf("overflow bucket %d is on the free list twice", off)
			}
			free[off] = true
			if off < 512 || (off-512)%512 != 0 || off+512 > d.OverflowSize {
				return fmt.Errorf("free overflow bucket offset %d out of range", off)
			}
		}
		return nil
	})
	return st, err
}
