package checks

import (
	"fmt"
	"testing"

	"github.com/akrylysov/pogreb"

	"verif/harness/core"
	"verif/harness/dbx"
)

// C11: iteration is complete and truthful.
func propC11(ch core.Chooser, st *core.Stats) error {
	kinds := []string{"fault", "mem", "os", "mmap"}
	h, err := newHist(ch, st, kinds, []int{2048, 4096, 1 << 20})
	if err != nil {
		return err
	}
	defer h.close()
	h.everPut = map[string]map[string]bool{}
	h.full = 64
	// quiescent part: states built by phased histories, scanned by fullCheck (multiset equality,
	// no duplicates, ErrIterationDone on every further call)
	if err := h.phases(core.Scale(5, 8), core.Scale(300, 900), []int{7, 3, 4, 1, 1, 0, 2}); err != nil {
		return err
	}
	st.Count("quiescent_scans", 1)
	scans := ch.Int("scans", 1, 3)
	nontrivial := false
	for sc := 0; sc < scans; sc++ {
		start := dbx.Clone(h.model)
		touched := map[string]bool{}
		seen := map[string]int{}
		b0, _ := h.shape()
		h.ch.Note("== scan %d over %d keys, %d buckets", sc, len(start), b0.Buckets)
		var it *pogreb.ItemIterator
		_ = core.Safe(func() error { it = h.db.Items(); return nil })
		returned := 0
		splitDuring, shiftAhead := false, false
		for {
			var k, v []byte
			var nerr error
			if err := core.Safe(func() error { k, v, nerr = it.Next(); return nil }); err != nil {
				return fmt.Errorf("scan %d: Next: %v", sc, err)
			}
			if nerr == pogreb.ErrIterationDone {
				break
			}
			if nerr != nil {
				return fmt.Errorf("scan %d: Next failed: %v", sc, nerr)
			}
			returned++
			if returned > 100000 {
				return fmt.Errorf("scan %d does not terminate", sc)
			}
			if !h.everPut[string(k)][string(v)] {
				return fmt.Errorf("scan %d returned the pair %s=%s, a value that was never put for that key", sc, dbx.K(string(k)), dbx.V(string(v)))
			}
			seen[string(k)]++
			// writers between two Next calls (the iterator takes the database lock per call, so a
			// single-goroutine interleaving is a faithful schedule)
			n := h.ch.Int("writers", 0, 4)
			for j := 0; j < n; j++ {
				bBefore, _ := h.shape()
				switch core.Weighted(h.ch, "wop", []int{4, 3, 1, 3}) {
				case 0:
					wk := h.ukeys[h.ch.Int("wk", 0, len(h.ukeys)-1)]
					touched[wk] = true
					if err := h.put(wk, core.PickInt(h.ch, "vlen", []int{0, 5, 20, 60})); err != nil {
						return err
					}
				case 1:
					wk := h.ukeys[h.ch.Int("wk", 0, len(h.ukeys)-1)]
					touched[wk] = true
					if _, live := h.model[wk]; live && seen[wk] == 0 {
						shiftAhead = true
					}
					if err := h.del(wk); err != nil {
						return err
					}
				case 2:
					if err := core.Safe(func() error { _, e := h.db.Compact(); return e }); err != nil {
						return fmt.Errorf("Compact during a scan failed: %v", err)
					}
				case 3: // burst of inserts of absent keys: forces splits
					lo := h.ch.Int("burstlo", 0, len(h.ukeys)-1)
					cnt := h.ch.Int("burst", 1, 40)
					for i := lo; i < len(h.ukeys) && i < lo+cnt; i++ {
						wk := h.ukeys[i]
						if _, live := h.model[wk]; live {
							continue
						}
						touched[wk] = true
						if err := h.put(wk, 5); err != nil {
							return err
						}
					}
				}
				bAfter, _ := h.shape()
				if bAfter.Buckets > bBefore.Buckets {
					splitDuring = true
				}
			}
		}
		for i := 0; i < 3; i++ {
			var nerr error
			_ = core.Safe(func() error { _, _, nerr = it.Next(); return nil })
			if nerr != pogreb.ErrIterationDone {
				return fmt.Errorf("scan %d: Next after the end returned %v, want ErrIterationDone", sc, nerr)
			}
		}
		untouched := 0
		for k := range start {
			if touched[k] {
				continue
			}
			untouched++
			if seen[k] == 0 {
				return fmt.Errorf("scan %d missed key %s, which existed with an unchanged value for the whole duration of the scan (%d pairs returned, %d keys at start)", sc, dbx.K(k), returned, len(start))
			}
		}
		if len(touched) == 0 {
			// nobody modified the database: exactly once each
			for k, n := range seen {
				if n != 1 {
					return fmt.Errorf("scan %d of an unmodified database returned key %s %d times", sc, dbx.K(k), n)
				}
			}
			if len(seen) != len(start) {
				return fmt.Errorf("scan %d of an unmodified database returned %d keys, %d are live", sc, len(seen), len(start))
			}
		}
		st.Eval(1)
		st.Count("untouched_keys_checked", int64(untouched))
		st.Count("pairs_returned", int64(returned))
		if splitDuring {
			st.Count("scans_with_split_during", 1)
		}
		if shiftAhead {
			st.Count("scans_with_delete_ahead_of_cursor", 1)
		}
		if splitDuring || shiftAhead {
			nontrivial = true
		}
	}
	if err := h.fullCheck("after the scans"); err != nil {
		return err
	}
	h.classify()
	if nontrivial {
		st.Nontrivial(core.FingerprintOf(ch))
		if st.WantSample() {
			n := core.NotesOf(ch, 400)
			if len(n) > 50 {
				n = n[len(n)-50:]
			}
			st.Sample(map[string]interface{}{"tail_of_history": n, "scans": scans})
		}
	}
	return nil
}

func TestC11(t *testing.T) { core.Run(t, "C11", "C11", propC11) }
