package hash

import (
	"crypto/rand"
	"encoding/binary"
)

// RandSeed generates a random hash seed.
func RandSeed() (uint32, error) {
	b := make([]byte, 4)
	if _, err := rand.Read(b); err != nil {
		return 0, err
	}
	return binary.LittleEndian.Uint32(b), nil
}
