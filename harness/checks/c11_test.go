package checks

import (
	"fmt"
	"runtime"
	"runtime/debug"
	"sync"
	"sync/atomic"
	"testing"
	"time"

	"github.com/akrylysov/pogreb"

	"verif/harness/core"
	"verif/harness/dbx"
	"verif/harness/keys"
)

// C11: iteration is complete and truthful.
func propC11(ch core.Chooser, st *core.Stats) error {
	kinds := []string{"fault", "mem", "os", "mmap"}
	h, err := newHist(ch, st, kinds, []int{2048, 4096, 1 << 20})
	if err != nil {
		return err
	}
	defer h.close()
	h.everPut = map[string]map[string]bool{}
	h.full = 64
	// quiescent part: states built by phased histories, scanned by fullCheck (multiset equality,
	// no duplicates, ErrIterationDone on every further call)
	if err := h.phases(core.Scale(5, 8), core.Scale(300, 900), []int{7, 3, 4, 1, 1, 0, 2}); err != nil {
		return err
	}
	st.Count("quiescent_scans", 1)
	scans := ch.Int("scans", 1, 3)
	nontrivial := false
	for sc := 0; sc < scans; sc++ {
		start := dbx.Clone(h.model)
		touched := map[string]bool{}
		seen := map[string]int{}
		b0, _ := h.shape()
		h.ch.Note("== scan %d over %d keys, %d buckets", sc, len(start), b0.Buckets)
		var it *pogreb.ItemIterator
		_ = core.Safe(func() error { it = h.db.Items(); return nil })
		returned := 0
		splitDuring, shiftAhead := false, false
		for {
			var k, v []byte
			var nerr error
			if err := core.Safe(func() error { k, v, nerr = it.Next(); return nil }); err != nil {
				return fmt.Errorf("scan %d: Next: %v", sc, err)
			}
			if nerr == pogreb.ErrIterationDone {
				break
			}
			if nerr != nil {
				return fmt.Errorf("scan %d: Next failed: %v", sc, nerr)
			}
			returned++
			if returned > 100000 {
				return fmt.Errorf("scan %d does not terminate", sc)
			}
			if !h.everPut[string(k)][string(v)] {
				return fmt.Errorf("scan %d returned the pair %s=%s, a value that was never put for that key", sc, dbx.K(string(k)), dbx.V(string(v)))
			}
			seen[string(k)]++
			// writers between two Next calls (the iterator takes the database lock per call, so a
			// single-goroutine interleaving is a faithful schedule)
			n := h.ch.Int("writers", 0, 4)
			for j := 0; j < n; j++ {
				bBefore, _ := h.shape()
				switch core.Weighted(h.ch, "wop", []int{4, 3, 1, 3}) {
				case 0:
					wk := h.ukeys[h.ch.Int("wk", 0, len(h.ukeys)-1)]
					touched[wk] = true
					if err := h.put(wk, core.PickInt(h.ch, "vlen", []int{0, 5, 20, 60})); err != nil {
						return err
					}
				case 1:
					wk := h.ukeys[h.ch.Int("wk", 0, len(h.ukeys)-1)]
					touched[wk] = true
					if _, live := h.model[wk]; live && seen[wk] == 0 {
						shiftAhead = true
					}
					if err := h.del(wk); err != nil {
						return err
					}
				case 2:
					if err := core.Safe(func() error { _, e := h.db.Compact(); return e }); err != nil {
						return fmt.Errorf("Compact during a scan failed: %v", err)
					}
				case 3: // burst of inserts of absent keys: forces splits
					lo := h.ch.Int("burstlo", 0, len(h.ukeys)-1)
					cnt := h.ch.Int("burst", 1, 40)
					for i := lo; i < len(h.ukeys) && i < lo+cnt; i++ {
						wk := h.ukeys[i]
						if _, live := h.model[wk]; live {
							continue
						}
						touched[wk] = true
						if err := h.put(wk, 5); err != nil {
							return err
						}
					}
				}
				bAfter, _ := h.shape()
				if bAfter.Buckets > bBefore.Buckets {
					splitDuring = true
				}
			}
		}
		for i := 0; i < 3; i++ {
			var nerr error
			_ = core.Safe(func() error { _, _, nerr = it.Next(); return nil })
			if nerr != pogreb.ErrIterationDone {
				return fmt.Errorf("scan %d: Next after the end returned %v, want ErrIterationDone", sc, nerr)
			}
		}
		untouched := 0
		for k := range start {
			if touched[k] {
				continue
			}
			untouched++
			if seen[k] == 0 {
				return fmt.Errorf("scan %d missed key %s, which existed with an unchanged value for the whole duration of the scan (%d pairs returned, %d keys at start)", sc, dbx.K(k), returned, len(start))
			}
		}
		if len(touched) == 0 {
			// nobody modified the database: exactly once each
			for k, n := range seen {
				if n != 1 {
					return fmt.Errorf("scan %d of an unmodified database returned key %s %d times", sc, dbx.K(k), n)
				}
			}
			if len(seen) != len(start) {
				return fmt.Errorf("scan %d of an unmodified database returned %d keys, %d are live", sc, len(seen), len(start))
			}
		}
		st.Eval(1)
		st.Count("untouched_keys_checked", int64(untouched))
		st.Count("pairs_returned", int64(returned))
		if splitDuring {
			st.Count("scans_with_split_during", 1)
		}
		if shiftAhead {
			st.Count("scans_with_delete_ahead_of_cursor", 1)
		}
		if splitDuring || shiftAhead {
			nontrivial = true
		}
	}
	if err := h.fullCheck("after the scans"); err != nil {
		return err
	}
	h.classify()
	if nontrivial {
		st.Nontrivial(core.FingerprintOf(ch))
		if st.WantSample() {
			n := core.NotesOf(ch, 400)
			if len(n) > 50 {
				n = n[len(n)-50:]
			}
			st.Sample(map[string]interface{}{"tail_of_history": n, "scans": scans})
		}
	}
	return nil
}

func TestC11(t *testing.T) { core.Run(t, "C11", "C11", propC11) }

// ---------------------------------------------------------------------------------------------
// C11 free-running (race build): scans run on their own goroutines while a writer goroutine
// executes a drawn operation list (inserts of fresh keys that grow the index, overwrites and
// deletes on a hot set) and the background compaction worker runs. Truthful: every returned
// pair carries a value that the operation list (or the prefill) ever assigns to that key.
// Complete: every prefilled key that the operation list never touches is returned at least once
// by every scan. Termination: a scan ends.

func propC11Free(ch core.Chooser, st *core.Stats) error {
	seed := uint32(ch.Int("hashseed", 0, 1<<30))
	pinSeed(seed)
	uni := keys.Build(seed, keys.Spec{Identical: 1, LowBits16: 40, LowBits2: 20, Plain: 40, Variant: uint32(ch.Int("univariant", 0, 3))})
	var ukeys []string
	for _, k := range uni.Keys {
		ukeys = append(ukeys, string(k))
	}
	kind := drawEnvKind(ch, []string{"os", "mmap", "mem"})
	env := NewEnv(kind)
	defer env.Cleanup()
	cfg := dbx.Config{SegSize: uint32(core.PickInt(ch, "segsize", []int{2048, 4096, 1 << 20})), MinSeg: 520, Frag: 0.1}
	cfg.SyncWrites = core.Pct(ch, "syncwrites", 25)
	opts := cfg.Options(env.FS)
	opts.BackgroundCompactionInterval = time.Duration(ch.Int("bg_compact_ms", 0, 2)) * time.Millisecond
	var db *pogreb.DB
	if err := core.Safe(func() error { var e error; db, e = pogreb.Open(env.Dir, opts); return e }); err != nil {
		return fmt.Errorf("Open failed: %v", err)
	}
	defer func() { _ = core.Safe(func() error { return db.Close() }) }()
	ever := map[string]map[string]bool{}
	note := func(k, v string) {
		if ever[k] == nil {
			ever[k] = map[string]bool{}
		}
		ever[k][v] = true
	}
	// prefill: stable keys (never touched again) and a hot set
	nStable := ch.Int("stable", 10, 70)
	stable := map[string]string{}
	for i := 0; i < nStable; i++ {
		k, v := ukeys[i], mkValue(i, core.PickInt(ch, "svlen", []int{1, 20, 60}))
		if err := db.Put([]byte(k), []byte(v)); err != nil {
			return fmt.Errorf("Put failed: %v", err)
		}
		stable[k] = v
		note(k, v)
	}
	hot := ukeys[nStable : nStable+6]
	type wop struct {
		kind int // 0 put hot, 1 delete hot, 2 insert fresh
		key  string
		val  string
	}
	n := ch.Int("writer_ops", 20, core.Scale(120, 400))
	ops := make([]wop, n)
	fresh := 0
	for i := range ops {
		switch core.Weighted(ch, "wkind", []int{3, 2, 5}) {
		case 0:
			k := hot[ch.Int("hotkey", 0, len(hot)-1)]
			ops[i] = wop{0, k, mkValue(1000+i, core.PickInt(ch, "vlen", []int{5, 60, 300}))}
			note(k, ops[i].val)
		case 1:
			ops[i] = wop{1, hot[ch.Int("hotkey", 0, len(hot)-1)], ""}
		default:
			fresh++
			k := fmt.Sprintf("fresh-%d-%d", fresh, i)
			ops[i] = wop{2, k, mkValue(2000+i, 8)}
			note(k, ops[i].val)
		}
	}
	scanners := ch.Int("scanners", 1, 3)
	scansEach := ch.Int("scans_each", 1, 3)
	ch.Note("fs=%s %s stable=%d writer ops=%d (fresh inserts %d) scanners=%d x %d", kind, cfg, nStable, n, fresh, scanners, scansEach)
	var wg sync.WaitGroup
	start := make(chan struct{})
	errs := make(chan string, 8)
	fail := func(f string, a ...interface{}) {
		select {
		case errs <- fmt.Sprintf(f, a...):
		default:
		}
	}
	wg.Add(1)
	go func() {
		defer wg.Done()
		debug.SetPanicOnFault(true)
		<-start
		for i, o := range ops {
			err := core.Safe(func() error {
				if o.kind == 1 {
					return db.Delete([]byte(o.key))
				}
				return db.Put([]byte(o.key), []byte(o.val))
			})
			if err != nil {
				fail("writer operation %d failed: %v", i, err)
				return
			}
			if i%4 == 0 {
				runtime.Gosched()
			}
		}
	}()
	var scansDone, pairs int64
	for sc := 0; sc < scanners; sc++ {
		wg.Add(1)
		go func(sc int) {
			defer wg.Done()
			debug.SetPanicOnFault(true)
			<-start
			for r := 0; r < scansEach; r++ {
				seen := map[string]bool{}
				err := core.Safe(func() error {
					it := db.Items()
					for cnt := 0; ; cnt++ {
						if cnt > 200000 {
							return fmt.Errorf("scan does not terminate")
						}
						k, v, e := it.Next()
						if e == pogreb.ErrIterationDone {
							return nil
						}
						if e != nil {
							return fmt.Errorf("Next failed: %v", e)
						}
						if !ever[string(k)][string(v)] {
							return fmt.Errorf("scan returned the pair %s=%s, a value never assigned to that key", dbx.K(string(k)), dbx.V(string(v)))
						}
						seen[string(k)] = true
						atomic.AddInt64(&pairs, 1)
						if cnt%16 == 0 {
							runtime.Gosched()
						}
					}
				})
				if err != nil {
					fail("scanner %d scan %d: %v", sc, r, err)
					return
				}
				for k := range stable {
					if !seen[k] {
						fail("scanner %d scan %d missed key %s, which existed with an unchanged value for the whole run", sc, r, dbx.K(k))
						return
					}
				}
				atomic.AddInt64(&scansDone, 1)
			}
		}(sc)
	}
	close(start)
	fin := make(chan struct{})
	go func() { wg.Wait(); close(fin) }()
	select {
	case <-fin:
	case <-time.After(120 * time.Second):
		return &core.Inconclusive{Msg: "free-running scan workload did not finish within 120 s"}
	}
	select {
	case e := <-errs:
		return fmt.Errorf("%s", e)
	default:
	}
	// quiescent end: a scan returns every live key exactly once
	final := dbx.Clone(stable)
	for _, o := range ops {
		if o.kind == 1 {
			delete(final, o.key)
		} else {
			final[o.key] = o.val
		}
	}
	if err := dbx.CheckAll(db, final, nil); err != nil {
		return fmt.Errorf("quiescent scan after the run: %v", err)
	}
	st.Eval(1)
	st.Count("free_scans", scansDone)
	st.Count("free_pairs_returned", pairs)
	st.Count("free_fs_"+kind, 1)
	if fresh >= 25 {
		// enough inserts of new keys for the index to split while scans are under way
		st.Nontrivial(core.FingerprintOf(ch))
	}
	return nil
}

func TestC11Free(t *testing.T) { core.Run(t, "C11", "C11free", propC11Free) }
