package fs

import (
	"math"
)

const maxMmapSize = math.MaxInt32
