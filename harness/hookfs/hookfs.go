// Package hookfs wraps a pogreb FileSystem and calls back around file-system calls. It gives the
// harness ownership of the schedule at file-system-call granularity: the callback can run other
// operations inline (deterministic interleavings without goroutines) or park the calling
// goroutine (pause-and-probe).
package hookfs

import (
	"os"
	"sync"

	pfs "github.com/akrylysov/pogreb/fs"
)

// Event describes a file-system call that is about to be made.
type Event struct {
	Op   string // "open", "read", "readat", "write", "writeat", "truncate", "sync", "slice", "remove", "rename", "close"
	Name string
	Flag int
}

// FS is the wrapper.
type FS struct {
	pfs.FileSystem
	mu   sync.Mutex
	hook func(Event)
	fail func(Event) error
}

// SetFail installs (or, with nil, removes) a fault injector: when it returns a non-nil error
// for a call, the call is not made and fails with that error (OpenFile and the data calls of
// files opened through the wrapper).
func (h *FS) SetFail(f func(Event) error) {
	h.mu.Lock()
	h.fail = f
	h.mu.Unlock()
}

func (h *FS) failure(e Event) error {
	h.mu.Lock()
	f := h.fail
	h.mu.Unlock()
	if f == nil {
		return nil
	}
	return f(e)
}

func New(base pfs.FileSystem) *FS { return &FS{FileSystem: base} }

// SetHook installs (or, with nil, removes) the callback.
func (h *FS) SetHook(f func(Event)) {
	h.mu.Lock()
	h.hook = f
	h.mu.Unlock()
}

func (h *FS) call(e Event) {
	h.mu.Lock()
	f := h.hook
	h.mu.Unlock()
	if f != nil {
		f(e)
	}
}

func (h *FS) OpenFile(name string, flag int, perm os.FileMode) (pfs.File, error) {
	h.call(Event{Op: "open", Name: name, Flag: flag})
	if err := h.failure(Event{Op: "open", Name: name, Flag: flag}); err != nil {
		return nil, err
	}
	f, err := h.FileSystem.OpenFile(name, flag, perm)
	if err != nil {
		return nil, err
	}
	return &file{File: f, h: h, name: name}, nil
}

func (h *FS) Remove(name string) error {
	h.call(Event{Op: "remove", Name: name})
	return h.FileSystem.Remove(name)
}

func (h *FS) Rename(oldpath, newpath string) error {
	h.call(Event{Op: "rename", Name: oldpath})
	return h.FileSystem.Rename(oldpath, newpath)
}

type file struct {
	pfs.File
	h    *FS
	name string
}

func (f *file) Read(p []byte) (int, error) {
	f.h.call(Event{Op: "read", Name: f.name})
	return f.File.Read(p)
}

func (f *file) Write(p []byte) (int, error) {
	f.h.call(Event{Op: "write", Name: f.name})
	return f.File.Write(p)
}

func (f *file) WriteAt(p []byte, off int64) (int, error) {
	f.h.call(Event{Op: "writeat", Name: f.name})
	if err := f.h.failure(Event{Op: "writeat", Name: f.name}); err != nil {
		return 0, err
	}
	return f.File.WriteAt(p, off)
}

func (f *file) Truncate(size int64) error {
	f.h.call(Event{Op: "truncate", Name: f.name})
	if err := f.h.failure(Event{Op: "truncate", Name: f.name}); err != nil {
		return err
	}
	return f.File.Truncate(size)
}

func (f *file) Sync() error {
	f.h.call(Event{Op: "sync", Name: f.name})
	if err := f.h.failure(Event{Op: "sync", Name: f.name}); err != nil {
		return err
	}
	return f.File.Sync()
}

func (f *file) Close() error {
	f.h.call(Event{Op: "close", Name: f.name})
	return f.File.Close()
}

func (f *file) ReadAt(p []byte, off int64) (int, error) {
	f.h.call(Event{Op: "readat", Name: f.name})
	if err := f.h.failure(Event{Op: "readat", Name: f.name}); err != nil {
		return 0, err
	}
	return f.File.ReadAt(p, off)
}

func (f *file) Slice(start int64, end int64) ([]byte, error) {
	f.h.call(Event{Op: "slice", Name: f.name})
	if err := f.h.failure(Event{Op: "slice", Name: f.name}); err != nil {
		return nil, err
	}
	return f.File.Slice(start, end)
}

func (h *FS) MkdirAll(path string, perm os.FileMode) error {
	h.call(Event{Op: "mkdir", Name: path})
	return h.FileSystem.MkdirAll(path, perm)
}

func (h *FS) Stat(name string) (os.FileInfo, error) {
	h.call(Event{Op: "stat", Name: name})
	return h.FileSystem.Stat(name)
}

func (h *FS) ReadDir(name string) ([]os.DirEntry, error) {
	h.call(Event{Op: "readdir", Name: name})
	return h.FileSystem.ReadDir(name)
}
