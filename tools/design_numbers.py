#!/usr/bin/env python3
"""Rewrites the generated table in DESIGN.md (between the NUMBERS markers) from evidence/*.json."""
import glob, json, os, re
ROOT = os.path.dirname(os.path.dirname(os.path.abspath(__file__)))
rows = []
for f in sorted(glob.glob(os.path.join(ROOT, "evidence", "*.json"))):
    d = json.load(open(f))
    c = d["coverage"]
    jobs = ", ".join("%s %d" % (k, v["evaluations"]) for k, v in sorted(c.get("per_check", {}).items()))
    rows.append("| %s | %s | %d | %d | %d | %.0f s | %s |" % (d["property_id"], d["tier"], d["seed"], c["evaluations"], c["distinct_nontrivial"], d["wall_s"], jobs))
table = "\n".join(["| id | tier | seed | evaluations | distinct non-trivial | wall | per job |", "|----|------|------|-------------|----------------------|------|---------|"] + rows)
p = os.path.join(ROOT, "DESIGN.md")
s = open(p).read()
s = re.sub(r"(<!-- NUMBERS:BEGIN -->\n).*?(\n<!-- NUMBERS:END -->)", lambda m: m.group(1) + table + m.group(2), s, flags=re.S)
open(p, "w").write(s)
print(table)

# --- the "B" (budget) item of every per-property entry: budgets from checks.json, counts from the
# committed quick evidence
cfg = json.load(open(os.path.join(ROOT, "checks.json")))


def fmt(n):
    return str(n)


def budget(pid):
    parts = []
    for j in cfg[pid]["jobs"]:
        name = j.get("check") or j.get("fuzz")
        q, t = j.get("quick"), j.get("thorough")
        if j.get("fuzz"):
            parts.append("%s (native fuzzing, thorough only, %s)" % (name, t.get("fuzztime")))
            continue
        qs = "%d×%s" % (q["shards"], fmt(q["checks"])) if q else "—"
        ts = "%d×%s" % (t["shards"], fmt(t["checks"])) if t else "—"
        parts.append("%s %s → %s" % (name, qs, ts))
    ev = os.path.join(ROOT, "evidence", pid + ".json")
    tail = ""
    if os.path.exists(ev):
        d = json.load(open(ev))
        c = d["coverage"]
        tail = "; committed %s run (seed %d): %s evaluations, %s distinct non-trivial (classes: `evidence/%s.json`)" % (
            d["tier"], d["seed"], fmt(c["evaluations"]), fmt(c["distinct_nontrivial"]), pid)
    return "* **B** shards×cases quick → thorough: " + ", ".join(parts) + tail + "."


s = open(p).read()
out, cur, skipping = [], None, False
for line in s.split("\n"):
    m = re.match(r"### (C\d\d) ", line)
    if line.startswith("### ") or line.startswith("## "):
        cur = m.group(1) if m else None
    if skipping:
        if line.startswith("* **") or line.startswith("#") or line.strip() == "":
            skipping = False
        else:
            continue
    if cur and line.startswith("* **B** "):
        text = budget(cur)
        # wrap at 98 columns
        words, cl = text.split(" "), ""
        for w in words:
            if len(cl) + len(w) + 1 > 98:
                out.append(cl)
                cl = "  " + w
            else:
                cl = (cl + " " + w) if cl else w
        out.append(cl)
        skipping = True
        continue
    out.append(line)
open(p, "w").write("\n".join(out))
