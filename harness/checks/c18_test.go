package checks

import (
	"bytes"
	"encoding/base64"
	"encoding/gob"
	"encoding/json"
	"fmt"
	"log"
	"os"
	"path/filepath"
	"sort"
	"strings"
	"sync"
	"testing"

	"github.com/akrylysov/pogreb"

	"verif/harness/core"
	"verif/harness/dbx"
	"verif/harness/format"
	"verif/harness/keys"
	pinned "verif/harness/pinned"
	pinfs "verif/harness/pinned/fs"
)

// ---------------------------------------------------------------------------------------------
// C18 part (a): the golden corpus written by the pinned version.

func goldenRoot() string {
	root := os.Getenv("VERIF_ROOT")
	if root == "" {
		root = "/verif"
	}
	return filepath.Join(root, "golden")
}

func goldenDirs() ([]string, error) {
	entries, err := os.ReadDir(goldenRoot())
	if err != nil {
		return nil, err
	}
	var out []string
	for _, e := range entries {
		if e.IsDir() {
			out = append(out, e.Name())
		}
	}
	sort.Strings(out)
	return out, nil
}

func loadGolden(name string) (*goldenExpected, map[string]string, error) {
	b, err := os.ReadFile(filepath.Join(goldenRoot(), name, "expected.json"))
	if err != nil {
		return nil, nil, err
	}
	exp := &goldenExpected{}
	if err := json.Unmarshal(b, exp); err != nil {
		return nil, nil, err
	}
	want := map[string]string{}
	for k, v := range exp.Contents {
		kb, err1 := base64.StdEncoding.DecodeString(k)
		vb, err2 := base64.StdEncoding.DecodeString(v)
		if err1 != nil || err2 != nil {
			return nil, nil, fmt.Errorf("bad base64 in expected.json of %s", name)
		}
		want[string(kb)] = string(vb)
	}
	return exp, want, nil
}

func parseConfig(s string) (dbx.Config, error) {
	var c dbx.Config
	var frag float64
	var sw string
	if _, err := fmt.Sscanf(s, "seg=%d minseg=%d frag=%f syncw=%s", &c.SegSize, &c.MinSeg, &frag, &sw); err != nil {
		return c, err
	}
	c.Frag = float32(frag)
	c.SyncWrites = sw == "true"
	return c, nil
}

func readOSDir(dir string) (map[string][]byte, error) {
	out := map[string][]byte{}
	entries, err := os.ReadDir(dir)
	if err != nil {
		return nil, err
	}
	for _, e := range entries {
		b, err := os.ReadFile(filepath.Join(dir, e.Name()))
		if err != nil {
			return nil, err
		}
		out[e.Name()] = b
	}
	return out, nil
}

// useOpened runs a few drawn operations on a database opened from foreign files, restarts it
// cleanly and compares with the model: a database that opened must keep working.
func useOpened(ch core.Chooser, db *pogreb.DB, env *Env, cfg dbx.Config, model map[string]string, desc string) (*pogreb.DB, error) {
	n := ch.Int("followups", 0, 8)
	var live []string
	for k := range model {
		live = append(live, k)
	}
	sort.Strings(live)
	for i := 0; i < n; i++ {
		switch op := ch.Int("fop", 0, 3); {
		case op == 0 || len(live) == 0:
			k := fmt.Sprintf("follow-up-%d", ch.Int("fk", 0, 5))
			v := mkValue(1000+i, core.PickInt(ch, "fvlen", []int{0, 5, 300, 1500}))
			ch.Note("follow-up put %s len=%d", dbx.K(k), len(v))
			if err := core.Safe(func() error { return db.Put([]byte(k), []byte(v)) }); err != nil {
				return db, fmt.Errorf("%s: Put on the opened database failed: %v", desc, err)
			}
			model[k] = v
		case op == 1:
			k := live[ch.Int("fki", 0, len(live)-1)]
			v := mkValue(2000+i, core.PickInt(ch, "fvlen", []int{0, 5, 300, 1500}))
			ch.Note("follow-up overwrite %s len=%d", dbx.K(k), len(v))
			if err := core.Safe(func() error { return db.Put([]byte(k), []byte(v)) }); err != nil {
				return db, fmt.Errorf("%s: Put on the opened database failed: %v", desc, err)
			}
			model[k] = v
		case op == 2:
			k := live[ch.Int("fki", 0, len(live)-1)]
			ch.Note("follow-up delete %s", dbx.K(k))
			if err := core.Safe(func() error { return db.Delete([]byte(k)) }); err != nil {
				return db, fmt.Errorf("%s: Delete on the opened database failed: %v", desc, err)
			}
			delete(model, k)
		default:
			ch.Note("follow-up compact")
			if err := core.Safe(func() error { _, e := db.Compact(); return e }); err != nil {
				return db, fmt.Errorf("%s: Compact on the opened database failed: %v", desc, err)
			}
		}
		if err := dbx.CheckAll(db, model, nil); err != nil {
			return db, fmt.Errorf("%s: after follow-up operation %d: %v", desc, i, err)
		}
	}
	if n == 0 {
		return db, nil
	}
	if err := core.Safe(func() error { return db.Close() }); err != nil {
		return nil, fmt.Errorf("%s: Close after follow-up operations failed: %v", desc, err)
	}
	dbx.ResetLog()
	db2, err := dbx.Open(env.Dir, cfg, env.FS)
	if err != nil {
		return nil, fmt.Errorf("%s: reopen after follow-up operations failed: %v", desc, err)
	}
	if dbx.RecoveryRan() {
		return db2, fmt.Errorf("%s: reopen after a clean Close ran recovery", desc)
	}
	if err := dbx.CheckAll(db2, model, live); err != nil {
		return db2, fmt.Errorf("%s: after follow-up operations and clean restart: %v", desc, err)
	}
	if _, err := dbx.CheckIndex(db2); err != nil {
		return db2, fmt.Errorf("%s: index invariant after follow-up operations: %v", desc, err)
	}
	return db2, nil
}

// openForeign opens a directory written by another build with the current code and checks
// contents, Count, point reads, index invariants and the recovery signal.
func openForeign(env *Env, cfg dbx.Config, want map[string]string, unclean bool, desc string) (*pogreb.DB, error) {
	dbx.ResetLog()
	db, err := dbx.Open(env.Dir, cfg, env.FS)
	if err != nil {
		return nil, fmt.Errorf("%s: Open failed: %v", desc, err)
	}
	if ran := dbx.RecoveryRan(); ran != unclean {
		return db, fmt.Errorf("%s: recovery ran = %v, want %v", desc, ran, unclean)
	}
	var all []string
	for k := range want {
		all = append(all, k)
	}
	sort.Strings(all)
	all = append(all, "never-stored-key", "")
	if err := dbx.CheckAll(db, want, all); err != nil {
		return db, fmt.Errorf("%s: %v", desc, err)
	}
	if _, err := dbx.CheckIndex(db); err != nil {
		return db, fmt.Errorf("%s: index invariant: %v", desc, err)
	}
	return db, nil
}

func propC18Golden(ch core.Chooser, st *core.Stats) error {
	dirs, err := goldenDirs()
	if err != nil || len(dirs) == 0 {
		return &core.Inconclusive{Msg: fmt.Sprintf("golden corpus missing: %v", err)}
	}
	name := dirs[ch.Int("golden", 0, len(dirs)-1)]
	unclean := ch.Int("unclean", 0, 1) == 1
	kind := []string{"os", "mmap"}[ch.Int("fs", 0, 1)]
	exp, want, err := loadGolden(name)
	if err != nil {
		return &core.Inconclusive{Msg: err.Error()}
	}
	cfg, err := parseConfig(exp.Config)
	if err != nil {
		return &core.Inconclusive{Msg: "config of " + name + ": " + err.Error()}
	}
	variant := "clean"
	if unclean {
		variant = "unclean"
	}
	desc := fmt.Sprintf("golden directory %s/%s (written by %s) opened through fs.%s", name, variant, exp.Writer, kind)
	ch.Note("%s", desc)
	env := NewEnv(kind)
	defer env.Cleanup()
	if err := copyDir(filepath.Join(goldenRoot(), name, variant), env.Dir); err != nil {
		return &core.Inconclusive{Msg: err.Error()}
	}
	// corpus sanity (independent of the code under test): the documented format reader replays
	// the golden segments to the expected contents
	files, err := readOSDir(env.Dir)
	if err != nil {
		return &core.Inconclusive{Msg: err.Error()}
	}
	// A golden log that does not replay to the contents its writer served is the trace of a
	// defect of the pinned version itself (e.g. g018: an oversize record made it append newer
	// records to a segment with an older sequence id, fixed since in 2ac781a). Recovery of such
	// a log cannot and need not reproduce the expected contents: the unclean variant is
	// excluded (and counted), the clean variant is still opened (no recovery, no log replay)
	// but not written to.
	sane := true
	if got, _, err := format.Replay(files); err != nil || !dbx.Equal(got, want) {
		sane = false
		if unclean {
			st.Exclude("golden_unclean_log_inconsistent_by_pinned_defect")
			return nil
		}
	}
	db, err := openForeign(env, cfg, want, unclean, desc)
	if db != nil {
		defer func() { _ = core.Safe(func() error { return db.Close() }) }()
	}
	if err != nil {
		return err
	}
	model := dbx.Clone(want)
	if sane {
		db, err = useOpened(ch, db, env, cfg, model, desc)
		if err != nil {
			return err
		}
	}
	st.Eval(1)
	st.Count("golden_"+variant+"_"+kind, 1)
	nonEmpty := false
	for c, on := range exp.Classes {
		if on {
			st.Count("golden_class_"+c, 1)
			if c != "deletes" {
				nonEmpty = true
			}
		}
	}
	if nonEmpty && len(want) > 0 {
		st.Nontrivial(core.FingerprintOf(ch))
		if st.WantSample() {
			st.Sample(map[string]interface{}{"case": desc, "keys": len(want), "steps_of_writer_history": exp.Steps, "classes": exp.Classes, "follow_ups": core.NotesOf(ch, 12)})
		}
	}
	return nil
}

// TestC18GoldenEnum covers the golden corpus exhaustively: every directory x {clean, unclean} x
// {fs.OS, fs.OSMMap}.
func TestC18GoldenEnum(t *testing.T) {
	dirs, err := goldenDirs()
	if err != nil || len(dirs) == 0 {
		t.Fatalf("golden corpus missing: %v", err)
	}
	var cases [][]int64
	for g := range dirs {
		for u := 0; u < 2; u++ {
			for f := 0; f < 2; f++ {
				// fixed follow-ups: put, overwrite, delete, compact
				cases = append(cases, []int64{int64(g), int64(u), int64(f), 4, 0, int64(g % 6), 2, 1, 0, 1, 2, 0, 3})
			}
		}
	}
	core.RunEnum(t, "C18", "C18golden-enum", cases, propC18Golden)
}

// TestC18Golden draws golden directory, variant, file system and follow-up operations.
func TestC18Golden(t *testing.T) { core.Run(t, "C18", "C18golden", propC18Golden) }

// ---------------------------------------------------------------------------------------------
// C18 part (b): fresh histories written by the current code, read by the independent reader.

type indexMetaDoc struct {
	Level               uint8
	NumKeys             uint32
	NumBuckets          uint32
	SplitBucketIndex    uint32
	FreeOverflowBuckets []int64
}

type dbMetaDoc struct {
	HashSeed uint32
}

// gobDecode decodes a metadata file: the common 512-byte header followed by one gob value.
func gobDecode(b []byte, v interface{}) error {
	if !format.HeaderOK(b) {
		return fmt.Errorf("no valid documented 512-byte header")
	}
	return gob.NewDecoder(bytes.NewReader(b[512:])).Decode(v)
}

// checkDirFormat verifies a directory (file name -> bytes) against the documented format with
// the independent reader. clean: the directory was closed (index files are valid and checked).
func checkDirFormat(files map[string][]byte, model map[string]string, clean bool, desc string) (nseg, ndel int, err error) {
	segs, err := format.Segments(files)
	if err != nil {
		return 0, 0, fmt.Errorf("%s: %v", desc, err)
	}
	seenSeq := map[uint64]bool{}
	seenID := map[int]bool{}
	segByID := map[int][]byte{}
	for _, s := range segs {
		if seenSeq[s.Seq] || seenID[s.ID] {
			return 0, 0, fmt.Errorf("%s: two segment files share an id or sequence id (%s)", desc, s.Name)
		}
		seenSeq[s.Seq], seenID[s.ID] = true, true
		segByID[s.ID] = s.Data
		if s.Name != fmt.Sprintf("%05d-%d.psg", s.ID, s.Seq) {
			return 0, 0, fmt.Errorf("%s: segment file name %q is not the documented %%05d-%%d.psg form", desc, s.Name)
		}
		if !format.HeaderOK(s.Data) {
			return 0, 0, fmt.Errorf("%s: segment %s does not start with the documented 512-byte header (signature, version 2)", desc, s.Name)
		}
		recs, end := format.Decode(s.Data)
		if end != len(s.Data) {
			return 0, 0, fmt.Errorf("%s: the independent reader of the documented format accepts only %d of the %d bytes of segment %s written by the current code (record %d is not a valid documented record)", desc, end, len(s.Data), s.Name, len(recs))
		}
		for _, r := range recs {
			if r.Delete {
				ndel++
			}
		}
	}
	got, _, err := format.Replay(files)
	if err != nil {
		return 0, 0, fmt.Errorf("%s: %v", desc, err)
	}
	if !dbx.Equal(got, model) {
		return 0, 0, fmt.Errorf("%s: replaying the segment files with the independent reader gives different contents: %s", desc, dbx.Diff(got, model))
	}
	if !clean {
		return len(segs), ndel, nil
	}
	// closed directory: metadata and index files
	var im indexMetaDoc
	var dm dbMetaDoc
	if err := gobDecode(files["index.pmt"], &im); err != nil {
		return 0, 0, fmt.Errorf("%s: index.pmt is not a gob-encoded index meta: %v", desc, err)
	}
	if err := gobDecode(files["db.pmt"], &dm); err != nil {
		return 0, 0, fmt.Errorf("%s: db.pmt is not a gob-encoded db meta: %v", desc, err)
	}
	ix := &format.Index{Main: files["main.pix"], Overflow: files["overflow.pix"]}
	nb, err := ix.NumBuckets()
	if err != nil {
		return 0, 0, fmt.Errorf("%s: %v", desc, err)
	}
	if uint32(nb) != im.NumBuckets || im.NumBuckets != (1<<im.Level)+im.SplitBucketIndex {
		return 0, 0, fmt.Errorf("%s: main.pix holds %d buckets, index.pmt says NumBuckets=%d Level=%d SplitBucketIndex=%d", desc, nb, im.NumBuckets, im.Level, im.SplitBucketIndex)
	}
	if int(im.NumKeys) != len(model) {
		return 0, 0, fmt.Errorf("%s: index.pmt NumKeys=%d, %d keys are live", desc, im.NumKeys, len(model))
	}
	slots, err := ix.CountSlots()
	if err != nil {
		return 0, 0, fmt.Errorf("%s: %v", desc, err)
	}
	if slots != len(model) {
		return 0, 0, fmt.Errorf("%s: the index files hold %d used slots, %d keys are live", desc, slots, len(model))
	}
	for k, want := range model {
		v, ok, err := ix.Lookup([]byte(k), dm.HashSeed, im.Level, im.SplitBucketIndex, segByID)
		if err != nil {
			return 0, 0, fmt.Errorf("%s: documented lookup of key %s in the raw index files: %v", desc, dbx.K(k), err)
		}
		if !ok {
			return 0, 0, fmt.Errorf("%s: the documented lookup procedure (murmur3-32 with the stored seed, level %d, split %d) does not find live key %s in the raw index files", desc, im.Level, im.SplitBucketIndex, dbx.K(k))
		}
		if string(v) != want {
			return 0, 0, fmt.Errorf("%s: documented lookup of key %s yields %s, want %s", desc, dbx.K(k), dbx.V(string(v)), dbx.V(want))
		}
	}
	for name, data := range files {
		if strings.HasSuffix(name, ".psg.pmt") {
			var sm struct {
				Full                                                 bool
				PutRecords, DeleteRecords, DeletedKeys, DeletedBytes uint32
			}
			if err := gobDecode(data, &sm); err != nil {
				return 0, 0, fmt.Errorf("%s: %s is not a gob-encoded segment meta: %v", desc, name, err)
			}
			_ = sm
		}
	}
	return len(segs), ndel, nil
}

// encoderDir builds a directory purely with the independent encoder: the records of a drawn
// history packed into segments, a lock file (so that the next Open recovers), no index.
func encoderDir(ch core.Chooser, ukeys []string) (map[string][]byte, map[string]string) {
	files := map[string][]byte{"lock": {}}
	model := map[string]string{}
	nseg := ch.Int("enc_segments", 1, 4)
	id := ch.Int("enc_first_id", 0, 3)
	seq := uint64(ch.Int("enc_first_seq", 1, 40))
	step := 0
	for s := 0; s < nseg; s++ {
		data := make([]byte, 512)
		copy(data, format.Signature)
		data[8] = 2
		n := ch.Int("enc_records", 0, 25)
		for i := 0; i < n; i++ {
			k := ukeys[ch.Int("enc_key", 0, len(ukeys)-1)]
			step++
			if core.Pct(ch, "enc_del", 25) {
				data = append(data, format.Encode([]byte(k), nil, true)...)
				delete(model, k)
			} else {
				v := mkValue(step, core.PickInt(ch, "enc_vlen", []int{0, 1, 20, 300, 506, 4090, 5000}))
				data = append(data, format.Encode([]byte(k), []byte(v), false)...)
				model[k] = v
			}
		}
		files[fmt.Sprintf("%05d-%d.psg", id, seq)] = data
		id += 1 + ch.Int("enc_id_gap", 0, 2)
		seq += uint64(1 + ch.Int("enc_seq_gap", 0, 3))
	}
	return files, model
}

func propC18Fresh(ch core.Chooser, st *core.Stats) error {
	kinds := []string{"fault", "os", "mmap", "mem"}
	h, err := newHist(ch, st, kinds, histSegSizes)
	if err != nil {
		return err
	}
	defer h.close()
	if err := h.phases(core.Scale(8, 12), core.Scale(300, 1200), []int{6, 3, 6, 2, 1, 0}); err != nil {
		return err
	}
	desc := fmt.Sprintf("history of %d steps on fs %s (%s)", h.step, h.env.Kind, h.cfg)
	// 1. as a killed process would leave it
	files, err := h.env.Files()
	if err != nil {
		return &core.Inconclusive{Msg: err.Error()}
	}
	if _, _, err := checkDirFormat(files, h.model, false, desc+", files while open"); err != nil {
		return err
	}
	// 2. cleanly closed
	if err := core.Safe(func() error { return h.db.Close() }); err != nil {
		h.db = nil
		return fmt.Errorf("%s: Close failed: %v", desc, err)
	}
	h.db = nil
	files, err = h.env.Files()
	if err != nil {
		return &core.Inconclusive{Msg: err.Error()}
	}
	nseg, ndel, err := checkDirFormat(files, h.model, true, desc+", files after Close")
	if err != nil {
		return err
	}
	// 3. a directory produced by the independent encoder is accepted by the current recovery
	encFiles, encModel := encoderDir(ch, h.ukeys)
	env := NewEnv(drawEnvKind(ch, []string{"os", "mmap"}))
	defer env.Cleanup()
	if err := os.MkdirAll(env.Dir, 0755); err != nil {
		return &core.Inconclusive{Msg: err.Error()}
	}
	for name, data := range encFiles {
		if err := os.WriteFile(filepath.Join(env.Dir, name), data, 0644); err != nil {
			return &core.Inconclusive{Msg: err.Error()}
		}
	}
	db, err := openForeign(env, h.cfg, encModel, true, fmt.Sprintf("directory of %d segment files produced by the independent encoder of the documented format", len(encFiles)-1))
	if db != nil {
		defer func() { _ = core.Safe(func() error { return db.Close() }) }()
	}
	if err != nil {
		return err
	}
	// the recovery must not have altered the (entirely valid) segment files
	after, err := readOSDir(env.Dir)
	if err != nil {
		return &core.Inconclusive{Msg: err.Error()}
	}
	for name, data := range encFiles {
		if strings.HasSuffix(name, ".psg") && !bytes.Equal(after[name], data) {
			return fmt.Errorf("recovery changed segment %s that holds only valid documented records (%d -> %d bytes)", name, len(data), len(after[name]))
		}
	}
	h.classify()
	st.Count("fresh_segments", int64(nseg))
	st.Count("fresh_delete_records", int64(ndel))
	st.Count("encoder_dirs_opened", 1)
	if nseg >= 2 && ndel >= 1 {
		st.Nontrivial(core.FingerprintOf(ch))
		if st.WantSample() {
			st.Sample(map[string]interface{}{"history": core.NotesOf(ch, 30), "segments_after_close": nseg, "delete_records_on_disk": ndel, "fs": h.env.Kind, "encoder_dir_keys": len(encModel)})
		}
	}
	return nil
}

func TestC18Fresh(t *testing.T) { core.Run(t, "C18", "C18fresh", propC18Fresh) }

// ---------------------------------------------------------------------------------------------
// C18 part (c): the pinned version (vendored source, harness/pinned) writes generated histories
// at check time; the current code must open them with identical contents.

type pinLog struct {
	mu  sync.Mutex
	buf bytes.Buffer
}

func (l *pinLog) Write(p []byte) (int, error) {
	l.mu.Lock()
	defer l.mu.Unlock()
	if l.buf.Len() < 1<<20 {
		l.buf.Write(p)
	}
	return len(p), nil
}

var pinCapture = &pinLog{}

func init() { pinned.SetLogger(log.New(pinCapture, "", 0)) }

type c18op struct {
	kind int // 0 put, 1 delete, 2 compact, 3 sync, 4 clean restart
	key  string
	vlen int
}

func drawC18Program(ch core.Chooser, ukeys []string, class []string, cfg dbx.Config, maxSteps int) []c18op {
	var ops []c18op
	// value lengths restricted so that no record exceeds the capacity of a segment: the pinned
	// version has a known defect there (fixed in 2ac781a) that must not be mistaken for a format problem
	var vlens []int
	for _, v := range histValueLens {
		if uint32(v)+400+512 <= cfg.SegSize {
			vlens = append(vlens, v)
		}
	}
	var starts []int
	for i := range class {
		if i == 0 || class[i] != class[i-1] {
			starts = append(starts, i)
		}
	}
	window := func() (int, int) {
		ci := ch.Int("class", 0, len(starts)-1)
		lo, hi := starts[ci], len(ukeys)-1
		if ci+1 < len(starts) {
			hi = starts[ci+1] - 1
		}
		if core.Bool(ch, "subwin") && hi > lo {
			hi = ch.Int("winhi", lo, hi)
		}
		return lo, hi
	}
	nph := ch.Int("phases", 1, 10)
	for p := 0; p < nph && len(ops) < maxSteps; p++ {
		switch core.Weighted(ch, "phase", []int{6, 2, 5, 2, 2, 1}) {
		case 0:
			lo, hi := window()
			vl := core.PickInt(ch, "vlen", vlens)
			for i := lo; i <= hi && len(ops) < maxSteps; i++ {
				ops = append(ops, c18op{0, ukeys[i], vl})
			}
		case 1:
			lo, hi := window()
			for i := lo; i <= hi && len(ops) < maxSteps; i++ {
				ops = append(ops, c18op{1, ukeys[i], 0})
			}
		case 2:
			lo, hi := window()
			n := ch.Int("churn", 1, 50)
			for j := 0; j < n && len(ops) < maxSteps; j++ {
				k := ukeys[ch.Int("k", lo, hi)]
				if core.Pct(ch, "churn_del", 35) {
					ops = append(ops, c18op{1, k, 0})
				} else {
					ops = append(ops, c18op{0, k, core.PickInt(ch, "vlen", vlens)})
				}
			}
		case 3:
			ops = append(ops, c18op{kind: 2})
		case 4:
			ops = append(ops, c18op{kind: 4})
		case 5:
			ops = append(ops, c18op{kind: 3})
		}
	}
	return ops
}

func pinnedOptions(cfg dbx.Config, mmap bool) *pinned.Options {
	o := &pinned.Options{FileSystem: pinfs.OS}
	if mmap {
		o.FileSystem = pinfs.OSMMap
	}
	if cfg.SyncWrites {
		o.BackgroundSyncInterval = -1
	}
	return pinned.VerifThresholds(o, cfg.SegSize, cfg.MinSeg, cfg.Frag)
}

func pinnedDump(db *pinned.DB) (map[string]string, error) {
	m := map[string]string{}
	it := db.Items()
	for {
		k, v, err := it.Next()
		if err == pinned.ErrIterationDone {
			break
		}
		if err != nil {
			return nil, err
		}
		if _, dup := m[string(k)]; dup {
			return nil, fmt.Errorf("duplicate key in scan")
		}
		m[string(k)] = string(v)
	}
	if int(db.Count()) != len(m) {
		return nil, fmt.Errorf("count mismatch")
	}
	return m, nil
}

var errPinnedDefect = fmt.Errorf("the pinned writer deviated from the reference map")

// pinnedWrite runs the program with the pinned version in dir and returns the final model.
// The directory is left open-and-abandoned ("unclean") in uncleanDir and closed in dir.
func pinnedWrite(ops []c18op, dir, uncleanDir string, cfg dbx.Config, mmap bool) (model map[string]string, shape map[string]int, err error) {
	model = map[string]string{}
	shape = map[string]int{}
	err = core.Safe(func() error {
		db, err := pinned.Open(dir, pinnedOptions(cfg, mmap))
		if err != nil {
			return fmt.Errorf("pinned Open: %v", err)
		}
		closed := false
		defer func() {
			if !closed {
				_ = db.Close()
			}
		}()
		for i, op := range ops {
			switch op.kind {
			case 0:
				v := mkValue(i, op.vlen)
				if err := db.Put([]byte(op.key), []byte(v)); err != nil {
					return fmt.Errorf("pinned Put: %v", err)
				}
				model[op.key] = v
			case 1:
				if err := db.Delete([]byte(op.key)); err != nil {
					return fmt.Errorf("pinned Delete: %v", err)
				}
				delete(model, op.key)
			case 2:
				cr, err := db.Compact()
				if err != nil {
					return fmt.Errorf("pinned Compact: %v", err)
				}
				shape["compacted_segments"] += cr.CompactedSegments
			case 3:
				if err := db.Sync(); err != nil {
					return fmt.Errorf("pinned Sync: %v", err)
				}
			case 4:
				if err := db.Close(); err != nil {
					return fmt.Errorf("pinned Close: %v", err)
				}
				db, err = pinned.Open(dir, pinnedOptions(cfg, mmap))
				if err != nil {
					closed = true
					return fmt.Errorf("pinned reopen: %v", err)
				}
				shape["restarts"]++
			}
		}
		got, err := pinnedDump(db)
		if err != nil || !dbx.Equal(got, model) {
			return errPinnedDefect
		}
		d, _, err := db.VerifIndexDump(100000)
		if err == nil {
			shape["buckets"] = int(d.NumBuckets)
			shape["level"] = int(d.Level)
			shape["free_overflow_buckets"] = len(d.FreeBuckets)
			for _, c := range d.Chains {
				if len(c) > 1 {
					shape["overflow_buckets"] += len(c) - 1
				}
			}
		}
		shape["segments"] = len(db.VerifSegments())
		if err := copyDir(dir, uncleanDir); err != nil {
			return &core.Inconclusive{Msg: err.Error()}
		}
		closed = true
		if err := db.Close(); err != nil {
			return fmt.Errorf("pinned Close: %v", err)
		}
		return nil
	})
	return
}

func propC18Diff(ch core.Chooser, st *core.Stats) error {
	seed := uint32(ch.Int("hashseed", 0, 1<<30))
	pinSeed(seed)
	ps := seed
	pinned.VerifSeedOverride = &ps
	uni := keys.Build(seed, keys.Spec{Identical: 2, LowBits16: 70, LowBits2: 30, SplitBit: 6, Plain: 30, Variant: uint32(ch.Int("univariant", 0, 3))})
	var ukeys []string
	for _, k := range uni.Keys {
		ukeys = append(ukeys, string(k))
	}
	cfg := dbx.DrawConfig(ch, []int{1024, 2048, 4096, 65536, 1 << 22})
	cfg.SyncWrites = core.Pct(ch, "syncwrites", 10)
	wmmap := core.Bool(ch, "writer_mmap")
	ops := drawC18Program(ch, ukeys, uni.Class, cfg, core.Scale(400, 1500))
	ch.Note("pinned writer: %s mmap=%v hashseed=%d, program of %d operations", cfg, wmmap, seed, len(ops))
	envClean := NewEnv("os")
	envUnclean := NewEnv("os")
	defer envClean.Cleanup()
	defer envUnclean.Cleanup()
	model, shape, err := pinnedWrite(ops, envClean.Dir, envUnclean.Dir, cfg, wmmap)
	if err == errPinnedDefect {
		st.Exclude("pinned_writer_hit_its_own_known_defect")
		return nil
	}
	if err != nil {
		if inc, ok := err.(*core.Inconclusive); ok {
			return inc
		}
		// errors of the pinned build are not verdicts about the current tree
		st.Exclude("pinned_writer_error")
		ch.Note("pinned writer error: %v", err)
		return nil
	}
	for _, variant := range []string{"clean", "unclean"} {
		env := envClean
		if variant == "unclean" {
			env = envUnclean
		}
		if core.Bool(ch, "reader_mmap_"+variant) {
			env.SwitchOS()
		}
		desc := fmt.Sprintf("directory written by the pinned version at check time (%d operations, %d segments, %d buckets, %d overflow buckets), %s, opened by the current code through fs.%s",
			len(ops), shape["segments"], shape["buckets"], shape["overflow_buckets"], variant, env.Kind)
		// corpus sanity, independent of the code under test
		files, err := readOSDir(env.Dir)
		if err != nil {
			return &core.Inconclusive{Msg: err.Error()}
		}
		if got, _, err := format.Replay(files); err != nil || !dbx.Equal(got, model) {
			st.Exclude("pinned_writer_files_do_not_replay_to_the_model")
			return nil
		}
		db, err := openForeign(env, cfg, model, variant == "unclean", desc)
		if err == nil {
			db, err = useOpened(ch, db, env, cfg, dbx.Clone(model), desc)
		}
		if db != nil {
			_ = core.Safe(func() error { return db.Close() })
		}
		if err != nil {
			return err
		}
	}
	st.Eval(1)
	for k, v := range shape {
		if v > 0 {
			st.Count("pinned_dirs_with_"+k, 1)
		}
	}
	st.Count("pinned_program_ops", int64(len(ops)))
	if len(model) > 0 && (shape["overflow_buckets"] > 0 || shape["buckets"] > 1) && shape["segments"] >= 2 {
		st.Nontrivial(core.FingerprintOf(ch))
		if st.WantSample() {
			st.Sample(map[string]interface{}{"case": core.NotesOf(ch, 12), "live_keys": len(model), "shape_of_pinned_directory": shape})
		}
	}
	return nil
}

func TestC18Diff(t *testing.T) { core.Run(t, "C18", "C18diff", propC18Diff) }
