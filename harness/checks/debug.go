package checks

import (
	"fmt"
	"os"
	"strings"

	"verif/harness/dbx"
	"verif/harness/faultfs"
	"verif/harness/format"
)

// describeSegments decodes the segment files of a state with the independent decoder (debug aid
// and failure description).
func describeSegments(st *faultfs.State, dir string) string {
	files := map[string][]byte{}
	for name, data := range st.Files() {
		if strings.HasPrefix(name, dir+"/") {
			files[strings.TrimPrefix(name, dir+"/")] = data
		}
	}
	segs, err := format.Segments(files)
	if err != nil {
		return err.Error()
	}
	var sb strings.Builder
	for _, sg := range segs {
		recs, end := format.Decode(padHeader(sg.Data))
		fmt.Fprintf(&sb, "  segment %s (%d bytes, valid prefix %d):", sg.Name, len(sg.Data), end)
		for _, r := range recs {
			if r.Delete {
				fmt.Fprintf(&sb, " del(%s)", dbx.K(string(r.Key)))
			} else {
				fmt.Fprintf(&sb, " put(%s,%s)", dbx.K(string(r.Key)), dbx.V(string(r.Value)))
			}
		}
		sb.WriteString("\n")
	}
	return sb.String()
}

func padHeader(b []byte) []byte {
	if len(b) >= 512 {
		return b
	}
	return append(append([]byte{}, b...), make([]byte, 512-len(b))...)
}

func debugEnabled() bool { return os.Getenv("VERIF_DEBUG") != "" }
