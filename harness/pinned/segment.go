package pogreb

import (
	"bufio"
	"encoding/binary"
	"fmt"
	"hash/crc32"
	"io"
)

type recordType int

const (
	recordTypePut recordType = iota
	recordTypeDelete

	segmentExt = ".psg"
)

// segment is a write-ahead log segment.
// It consists of a sequence of binary-encoded variable length records.
type segment struct {
	*file
	id         uint16 // Physical segment identifier.
	sequenceID uint64 // Logical monotonically increasing segment identifier.
	name       string
	meta       *segmentMeta
}

func segmentName(id uint16, sequenceID uint64) string {
	return fmt.Sprintf("%05d-%d%s", id, sequenceID, segmentExt)
}

type segmentMeta struct {
	Full          bool
	PutRecords    uint32
	DeleteRecords uint32
	DeletedKeys   uint32
	DeletedBytes  uint32
}

func segmentMetaName(id uint16, sequenceID uint64) string {
	return segmentName(id, sequenceID) + metaExt
}

// Binary representation of a segment record:
// +---------------+------------------+------------------+-...-+--...--+----------+
// | Key Size (2B) | Record Type (1b) | Value Size (31b) | Key | Value | CRC (4B) |
// +---------------+------------------+------------------+-...-+--...--+----------+
type record struct {
	rtype     recordType
	segmentID uint16
	offset    uint32
	data      []byte
	key       []byte
	value     []byte
}

func encodedRecordSize(kvSize uint32) uint32 {
	// key size, value size, key, value, crc32
	return 2 + 4 + kvSize + 4
}

func encodeRecord(key []byte, value []byte, rt recordType) []byte {
	size := encodedRecordSize(uint32(len(key) + len(value)))
	data := make([]byte, size)
	binary.LittleEndian.PutUint16(data[:2], uint16(len(key)))

	valLen := uint32(len(value))
	if rt == recordTypeDelete { // Set delete bit.
		valLen |= 1 << 31
	}
	binary.LittleEndian.PutUint32(data[2:], valLen)

	copy(data[6:], key)
	copy(data[6+len(key):], value)
	checksum := crc32.ChecksumIEEE(data[:6+len(key)+len(value)])
	binary.LittleEndian.PutUint32(data[size-4:size], checksum)
	return data
}

func encodePutRecord(key []byte, value []byte) []byte {
	return encodeRecord(key, value, recordTypePut)
}

func encodeDeleteRecord(key []byte) []byte {
	return encodeRecord(key, nil, recordTypeDelete)
}

// segmentIterator iterates over segment records.
type segmentIterator struct {
	f      *segment
	offset uint32
	r      *bufio.Reader
	buf    []byte // kv size and crc32 reusable buffer.
}

func newSegmentIterator(f *segment) (*segmentIterator, error) {
	if _, err := f.Seek(int64(headerSize), io.SeekStart); err != nil {
		return nil, err
	}
	return &segmentIterator{
		f:      f,
		offset: headerSize,
		r:      bufio.NewReader(f),
		buf:    make([]byte, 6),
	}, nil
}

func (it *segmentIterator) next() (record, error) {
	// Read key and value size.
	kvSizeBuf := it.buf
	if _, err := io.ReadFull(it.r, kvSizeBuf); err != nil {
		if err == io.EOF {
			return record{}, ErrIterationDone
		}
		return record{}, err
	}

	// Decode key size.
	keySize := uint32(binary.LittleEndian.Uint16(kvSizeBuf[:2]))

	// Decode value size and record type.
	rt := recordTypePut
	valueSize := binary.LittleEndian.Uint32(kvSizeBuf[2:])
	if valueSize&(1<<31) != 0 {
		rt = recordTypeDelete
		valueSize &^= 1 << 31
	}

	// Read key, value and checksum.
	recordSize := encodedRecordSize(keySize + valueSize)
	data := make([]byte, recordSize)
	copy(data, kvSizeBuf)
	if _, err := io.ReadFull(it.r, data[6:]); err != nil {
		return record{}, err
	}

	// Verify checksum.
	checksum := binary.LittleEndian.Uint32(data[len(data)-4:])
	if checksum != crc32.ChecksumIEEE(data[:len(data)-4]) {
		return record{}, errCorrupted
	}

	offset := it.offset
	it.offset += recordSize
	rec := record{
		rtype:     rt,
		segmentID: it.f.id,
		offset:    offset,
		data:      data,
		key:       data[6 : 6+keySize],
		value:     data[6+keySize : 6+keySize+valueSize],
	}
	return rec, nil
}
