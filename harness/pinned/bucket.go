package pogreb

import (
	"encoding/binary"
)

const (
	bucketSize     = 512
	slotsPerBucket = 31 // Maximum number of slots possible to fit in a 512-byte bucket.
)

// slot corresponds to a single item in the hash table.
type slot struct {
	hash      uint32
	segmentID uint16
	keySize   uint16
	valueSize uint32
	offset    uint32 // Offset of the record in a segment.
}

func (sl slot) kvSize() uint32 {
	return uint32(sl.keySize) + sl.valueSize
}

// bucket is an array of slots.
type bucket struct {
	slots [slotsPerBucket]slot
	next  int64 // Offset of overflow bucket.
}

// bucketHandle is a bucket, plus its offset and the file it's written to.
type bucketHandle struct {
	bucket
	file   *file
	offset int64
}

func (b bucket) MarshalBinary() ([]byte, error) {
	buf := make([]byte, bucketSize)
	data := buf
	for i := 0; i < slotsPerBucket; i++ {
		sl := b.slots[i]
		binary.LittleEndian.PutUint32(buf[:4], sl.hash)
		binary.LittleEndian.PutUint16(buf[4:6], sl.segmentID)
		binary.LittleEndian.PutUint16(buf[6:8], sl.keySize)
		binary.LittleEndian.PutUint32(buf[8:12], sl.valueSize)
		binary.LittleEndian.PutUint32(buf[12:16], sl.offset)
		buf = buf[16:]
	}
	binary.LittleEndian.PutUint64(buf[:8], uint64(b.next))
	return data, nil
}

func (b *bucket) UnmarshalBinary(data []byte) error {
	for i := 0; i < slotsPerBucket; i++ {
		_ = data[16] // bounds check hint to compiler; see golang.org/issue/14808
		b.slots[i].hash = binary.LittleEndian.Uint32(data[:4])
		b.slots[i].segmentID = binary.LittleEndian.Uint16(data[4:6])
		b.slots[i].keySize = binary.LittleEndian.Uint16(data[6:8])
		b.slots[i].valueSize = binary.LittleEndian.Uint32(data[8:12])
		b.slots[i].offset = binary.LittleEndian.Uint32(data[12:16])
		data = data[16:]
	}
	b.next = int64(binary.LittleEndian.Uint64(data[:8]))
	return nil
}

func (b *bucket) del(slotIdx int) {
	i := slotIdx
	// Shift slots.
	for ; i < slotsPerBucket-1; i++ {
		b.slots[i] = b.slots[i+1]
	}
	b.slots[i] = slot{}
}

func (b *bucketHandle) read() error {
	buf, err := b.file.Slice(b.offset, b.offset+int64(bucketSize))
	if err != nil {
		return err
	}
	return b.UnmarshalBinary(buf)
}

func (b *bucketHandle) write() error {
	buf, err := b.MarshalBinary()
	if err != nil {
		return err
	}
	_, err = b.file.WriteAt(buf, b.offset)
	return err
}

// slotWriter inserts and writes slots into a bucket.
type slotWriter struct {
	bucket      *bucketHandle
	slotIdx     int
	prevBuckets []*bucketHandle
}

func (sw *slotWriter) insert(sl slot, idx *index) error {
	if sw.slotIdx == slotsPerBucket {
		// Bucket is full, create a new overflow bucket.
		nextBucket, err := idx.createOverflowBucket()
		if err != nil {
			return err
		}
		sw.bucket.next = nextBucket.offset
		sw.prevBuckets = append(sw.prevBuckets, sw.bucket)
		sw.bucket = nextBucket
		sw.slotIdx = 0
	}
	sw.bucket.slots[sw.slotIdx] = sl
	sw.slotIdx++
	return nil
}

func (sw *slotWriter) write() error {
	// Write previous buckets first.
	for i := len(sw.prevBuckets) - 1; i >= 0; i-- {
		if err := sw.prevBuckets[i].write(); err != nil {
			return err
		}
	}
	return sw.bucket.write()
}
