package fs

import (
	"os"
	"path/filepath"
)

// Sub returns a new file system rooted at dir.
func Sub(fsys FileSystem, dir string) FileSystem {
	return &subFS{
		fsys: fsys,
		root: dir,
	}
}

type subFS struct {
	fsys FileSystem
	root string
}

func (fs *subFS) OpenFile(name string, flag int, perm os.FileMode) (File, error) {
	subName := filepath.Join(fs.root, name)
	return fs.fsys.OpenFile(subName, flag, perm)
}

func (fs *subFS) Stat(name string) (os.FileInfo, error) {
	subName := filepath.Join(fs.root, name)
	return fs.fsys.Stat(subName)
}

func (fs *subFS) Remove(name string) error {
	subName := filepath.Join(fs.root, name)
	return fs.fsys.Remove(subName)
}

func (fs *subFS) Rename(oldpath, newpath string) error {
	subOldpath := filepath.Join(fs.root, oldpath)
	subNewpath := filepath.Join(fs.root, newpath)
	return fs.fsys.Rename(subOldpath, subNewpath)
}

func (fs *subFS) ReadDir(name string) ([]os.DirEntry, error) {
	subName := filepath.Join(fs.root, name)
	return fs.fsys.ReadDir(subName)
}

func (fs *subFS) CreateLockFile(name string, perm os.FileMode) (LockFile, bool, error) {
	subName := filepath.Join(fs.root, name)
	return fs.fsys.CreateLockFile(subName, perm)
}

func (fs *subFS) MkdirAll(path string, perm os.FileMode) error {
	subPath := filepath.Join(fs.root, path)
	return fs.fsys.MkdirAll(subPath, perm)
}

var _ FileSystem = &subFS{}
