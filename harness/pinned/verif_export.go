//go:build verif

package pogreb

import (
	"verif/harness/pinned/internal/hash"
)

// This file is only compiled with the "verif" build tag.
// It exposes internals to the external verification harness. It adds no behaviour to the
// database: every function either reads state, sets unexported options before Open, or
// installs a callback that is nil by default.

// VerifThresholds sets the unexported segment size and compaction thresholds on a copy of opts.
func VerifThresholds(opts *Options, maxSegmentSize uint32, compactionMinSegmentSize uint32, compactionMinFragmentation float32) *Options {
	o := Options{}
	if opts != nil {
		o = *opts
	}
	o.maxSegmentSize = maxSegmentSize
	o.compactionMinSegmentSize = compactionMinSegmentSize
	o.compactionMinFragmentation = compactionMinFragmentation
	return &o
}

// VerifHash is the hash function used by the index.
func VerifHash(data []byte, seed uint32) uint32 {
	return hash.Sum32WithSeed(data, seed)
}

// VerifSeedOverride, when non-nil, replaces every freshly drawn random hash seed.
// Must only be changed while no Open is in progress.
var VerifSeedOverride *uint32

func verifAdjustSeed(db *DB) {
	if p := VerifSeedOverride; p != nil {
		db.hashSeed = *p
	}
}

// VerifHashSeed returns the hash seed of the database.
func (db *DB) VerifHashSeed() uint32 {
	db.mu.RLock()
	defer db.mu.RUnlock()
	return db.hashSeed
}

// VerifCompactionYield, when set, is called by Compact outside of the database lock:
// with point "record" before every per-record critical section and with point "remove"
// before the critical section that removes the source segment.
// Must only be changed while no compaction is in progress.
var VerifCompactionYield func(db *DB, point string)

func verifCompactionYield(db *DB, point string) {
	if f := VerifCompactionYield; f != nil {
		f(db, point)
	}
}

// VerifSlot is a raw index slot.
type VerifSlot struct {
	Hash      uint32
	SegmentID uint16
	KeySize   uint16
	ValueSize uint32
	Offset    uint32
}

// VerifBucket is a raw index bucket.
type VerifBucket struct {
	Offset   int64 // Offset of the bucket in its index file.
	Overflow bool  // Whether the bucket lives in the overflow index file.
	Slots    [slotsPerBucket]VerifSlot
	Next     int64
}

// VerifIndex is a raw dump of the index.
type VerifIndex struct {
	Level          uint8
	NumKeys        uint32
	NumBuckets     uint32
	SplitBucketIdx uint32
	FreeBuckets    []int64
	MainSize       int64
	OverflowSize   int64
	Chains         [][]VerifBucket // Chains[i] is the bucket chain of main bucket i.
}

// VerifIndexDump returns a raw dump of the index. maxChain bounds the length of a chain
// (a longer chain is cut and reported via the returned flag, it can only be a cycle).
func (db *DB) VerifIndexDump(maxChain int) (*VerifIndex, bool, error) {
	db.mu.RLock()
	defer db.mu.RUnlock()
	idx := db.index
	d := &VerifIndex{
		Level:          idx.level,
		NumKeys:        idx.numKeys,
		NumBuckets:     idx.numBuckets,
		SplitBucketIdx: idx.splitBucketIdx,
		FreeBuckets:    append([]int64(nil), idx.freeBucketOffs...),
		MainSize:       idx.main.size,
		OverflowSize:   idx.overflow.size,
	}
	cut := false
	for bi := uint32(0); bi < idx.numBuckets; bi++ {
		var chain []VerifBucket
		it := idx.newBucketIterator(bi)
		for {
			off, overflow := it.off, it.f == idx.overflow
			b, err := it.next()
			if err == ErrIterationDone {
				break
			}
			if err != nil {
				return nil, false, err
			}
			vb := VerifBucket{Offset: off, Overflow: overflow, Next: b.next}
			for i := 0; i < slotsPerBucket; i++ {
				sl := b.slots[i]
				vb.Slots[i] = VerifSlot{Hash: sl.hash, SegmentID: sl.segmentID, KeySize: sl.keySize, ValueSize: sl.valueSize, Offset: sl.offset}
			}
			chain = append(chain, vb)
			if len(chain) >= maxChain {
				cut = true
				break
			}
		}
		d.Chains = append(d.Chains, chain)
	}
	return d, cut, nil
}

// VerifBucketIndex returns the index of the main bucket the hash maps to.
func (db *DB) VerifBucketIndex(h uint32) uint32 {
	db.mu.RLock()
	defer db.mu.RUnlock()
	return db.index.bucketIndex(h)
}

// VerifReadSlot reads the key and the value the slot points to from the write-ahead log.
func (db *DB) VerifReadSlot(vs VerifSlot) ([]byte, []byte, error) {
	db.mu.RLock()
	defer db.mu.RUnlock()
	sl := slot{hash: vs.Hash, segmentID: vs.SegmentID, keySize: vs.KeySize, valueSize: vs.ValueSize, offset: vs.Offset}
	if db.datalog.segments[sl.segmentID] == nil {
		return nil, nil, errCorrupted
	}
	k, v, err := db.datalog.readKeyValue(sl)
	if err != nil {
		return nil, nil, err
	}
	return cloneBytes(k), cloneBytes(v), nil
}

// VerifSegment describes a write-ahead log segment.
type VerifSegment struct {
	ID            uint16
	SequenceID    uint64
	Name          string
	Size          int64 // In-memory append offset.
	Current       bool
	Full          bool
	PutRecords    uint32
	DeleteRecords uint32
	DeletedKeys   uint32
	DeletedBytes  uint32
}

// VerifSegments lists the segments ordered from oldest to newest.
func (db *DB) VerifSegments() []VerifSegment {
	db.mu.RLock()
	defer db.mu.RUnlock()
	var out []VerifSegment
	for _, seg := range db.datalog.segmentsBySequenceID() {
		out = append(out, VerifSegment{
			ID:            seg.id,
			SequenceID:    seg.sequenceID,
			Name:          seg.name,
			Size:          seg.size,
			Current:       seg == db.datalog.curSeg,
			Full:          seg.meta.Full,
			PutRecords:    seg.meta.PutRecords,
			DeleteRecords: seg.meta.DeleteRecords,
			DeletedKeys:   seg.meta.DeletedKeys,
			DeletedBytes:  seg.meta.DeletedBytes,
		})
	}
	return out
}

// VerifKill simulates the death of the process that owns the database: the background
// worker is stopped and every file descriptor - including the one of the lock file - is closed
// without running the Close protocol. No metadata is written and the lock file is left behind.
func (db *DB) VerifKill() {
	if db.cancelBgWorker != nil {
		db.cancelBgWorker()
	}
	db.closeWg.Wait()
	db.mu.Lock()
	defer db.mu.Unlock()
	for _, seg := range db.datalog.segments {
		if seg != nil {
			_ = seg.Close()
		}
	}
	_ = db.index.main.Close()
	_ = db.index.overflow.Close()
	if c, ok := db.lock.(interface{ Close() error }); ok {
		_ = c.Close()
	}
}
