#!/bin/bash
# Runs all quick checks against a property-preserving change set.
#   tools/benigntest.sh benign/B1.diff [check ids...]
# Fresh scratch worktree of /repo HEAD -> apply the diff -> build + existing suite must pass ->
# ./check <ids|all> quick with VERIF_REPO=<worktree>. Any VIOLATION or INCONCLUSIVE line is a
# defect of the checks. The worktree is removed afterwards.
set -u
export GOFLAGS=-mod=mod GOPROXY=off GOSUMDB=off GOTOOLCHAIN=local
diff=$(realpath $1); shift
wt=/tmp/wt/benign-$(basename $diff .diff)
mkdir -p /tmp/wt
git -C /repo worktree remove --force $wt >/dev/null 2>&1
git -C /repo worktree add -q --detach $wt HEAD || exit 2
trap 'git -C /repo worktree remove --force $wt >/dev/null 2>&1' EXIT
cd $wt && git apply $diff || { echo "diff does not apply"; exit 2; }
go build ./... && go build -tags verif ./... || { echo "build: FAIL"; exit 2; }
go test -vet=off -count=1 ./... >/dev/null 2>&1 || { echo "existing suite with the change: FAIL"; exit 2; }
echo "existing suite with the change: PASS"
cd /verif
if [ $# -eq 0 ]; then set -- all; fi
for c in "$@"; do
  VERIF_REPO=$wt VERIF_SEED=${VERIF_SEED:-1} ./check $c quick 2>&1 | grep -E "^(VIOLATION|OK|INCONCLUSIVE|KNOWN|BUILD)" | cut -c1-300
done
