package checks

import (
	"fmt"
	"testing"

	"verif/harness/core"
	"verif/harness/dbx"
	"verif/harness/faultfs"
)

// C09, second job: the history before the Close contains a process crash and the recovery from
// it ("every history before the Close").
//
// Epoch 0 is a generated session cut at a drawn process-crash point (more than half of the draws are torn
// writes, so the newest segment ends in a torn tail that the recovery has to discard). The crash
// image is taken as fully written back (the machine stayed up; the power-loss model allows every
// surviving prefix, the whole of it included). Epoch 1 opens that image - its Open is a recovery -
// runs a generated history, and ends with Close()==nil. From there on the oracle is the one of
// the first job: a power failure between the return of that Close and the end of the next Open,
// drawn surviving prefixes, and the image must open and hold exactly the closed contents. What
// the recovery left behind (append offsets, truncated tails, rebuilt index files, side files) is
// thereby required to be as good a checkpoint after Close as that of a session that started clean.
func propC09Chain(ch core.Chooser, st *core.Stats) error {
	_, ukeys := drawUniverse(ch)
	cfg := dbx.DrawConfig(ch, []int{600, 1024, 2048, 4096})
	cfg.SyncWrites = core.Pct(ch, "syncwrites", 30)
	ch.Note("config: %s universe=%d keys", cfg, len(ukeys))

	// epoch 0: a session that dies
	ch.Note("== epoch 0 (ends in a process crash)")
	s0 := newFsess(ch, st, faultfs.NewState(), cfg, ukeys, map[string]string{})
	if err := s0.open(); err != nil {
		return fmt.Errorf("epoch 0: %v", err)
	}
	if err := s0.runOps(ch.Int("nops0", 1, core.Scale(25, 60)), []int{8, 3, 1, 1, 1, 1, 0, 0}); err != nil {
		return fmt.Errorf("epoch 0: %v", err)
	}
	cp := drawCrashPointBias(ch, s0, faultfs.NewState(), 50)
	ch.Note("epoch 0: %s", cp.Desc)
	allowed := []map[string]string{s0.states[cp.Lo]}
	if cp.Hi != cp.Lo {
		allowed = append(allowed, s0.states[cp.Hi])
	}
	res, err := checkImage(cp.Img.Clone(), cfg, ukeys, allowed, "epoch 0: "+cp.Desc)
	if err != nil {
		return err
	}
	model := allowed[res.Matched]

	// epoch 1: recovery, a history, Close
	ch.Note("== epoch 1 (recovers, writes, closes)")
	s := newFsess(ch, st, cp.Img, cfg, ukeys, model)
	if err := s.open(); err != nil {
		return fmt.Errorf("epoch 1: %v", err)
	}
	if err := s.readback("after the recovering Open"); err != nil {
		return fmt.Errorf("epoch 1: %v", err)
	}
	sessions := ch.Int("sessions", 1, 2)
	lastCloseStart := 0
	writes := 0
	for i := 0; i < sessions; i++ {
		before := len(s.states)
		if err := s.runOps(ch.Int("nops1", 1, core.Scale(20, 60)), []int{8, 4, 1, 1, 0, 1, 0, 0}); err != nil {
			return fmt.Errorf("epoch 1, session %d: %v", i, err)
		}
		writes += len(s.states) - before
		lastCloseStart = s.fs.LogLen()
		if err := s.closeDB(); err != nil {
			return fmt.Errorf("epoch 1, session %d: %v", i, err)
		}
		if i+1 < sessions {
			if err := s.open(); err != nil {
				return fmt.Errorf("epoch 1, session %d: %v", i+1, err)
			}
			if dbx.RecoveryRan() {
				return fmt.Errorf("epoch 1, session %d: Open after a clean Close ran recovery", i+1)
			}
		}
	}
	closed := dbx.Clone(s.model)
	closePos := s.fs.LogLen()
	if err := s.open(); err != nil {
		return fmt.Errorf("Open after the final Close failed: %v", err)
	}
	endPos := s.fs.LogLen()
	hadUnsynced := unsyncedInodes(s.fs.LogCopy(), lastCloseStart)
	nontrivial := cp.Torn > 0 && writes > 0
	images := core.Scale(3, 6)
	for j := 0; j < images; j++ {
		p := ch.Int("p", closePos, endPos)
		img, lost, desc := powerLoss(ch, s, cp.Img, p)
		desc = fmt.Sprintf("%s [after a recovery from: %s; Close returned at %d, next Open ends at %d]", desc, cp.Desc, closePos, endPos)
		ch.Note("%s", desc)
		if _, err := checkImage(img, cfg, ukeys, []map[string]string{closed}, desc); err != nil {
			return err
		}
		st.Eval(1)
		if lost {
			st.Count("chain_images_losing_unsynced_data", 1)
		}
		if p > closePos {
			st.Count("chain_failure_inside_next_open", 1)
		} else {
			st.Count("chain_failure_right_after_close", 1)
		}
		if nontrivial {
			st.NontrivialSub(core.FingerprintOf(ch), j)
		}
	}
	st.Count("chain_histories", 1)
	st.Count("chain_crash_in_"+cp.Ctx, 1)
	if cp.Torn > 0 {
		st.Count("chain_histories_torn_crash", 1)
	}
	if hadUnsynced > 0 {
		st.Count("chain_histories_close_had_unsynced_files", 1)
	}
	if nontrivial {
		st.Count("chain_histories_torn_crash_then_writes_then_close", 1)
		if st.WantSample() {
			st.Sample(map[string]interface{}{"history": core.NotesOf(ch, 50), "crash": cp.Desc, "writes_after_recovery": writes, "close_returned_at_fs_op": closePos, "next_open_ends_at_fs_op": endPos})
		}
	}
	return nil
}

func TestC09Chain(t *testing.T) { core.Run(t, "C09", "C09chain", propC09Chain) }
