package checks

import (
	"fmt"
	"sort"
	"strconv"
	"strings"

	"github.com/akrylysov/pogreb"

	"verif/harness/core"
	"verif/harness/dbx"
	"verif/harness/faultfs"
	"verif/harness/format"
	"verif/harness/keys"
)

// fsess runs generated sessions on the recording file system. It is the engine of the
// fault checks (C03, C04, C05, C06, C09).
//
// Every writer operation (Put/Delete, also the ones executed inline at compaction yield points)
// is bracketed by markers in the file-system log: "B<i>" before and "E<i+1>" after, where i is
// the index of the model state before the operation; states[i] is the reference content after
// i writer operations. Other API calls are bracketed by descriptive markers (C/X/O/S + B/E) used
// only for classification.
type fsess struct {
	ch     core.Chooser
	st     *core.Stats
	fs     *faultfs.FS
	cfg    dbx.Config
	db     *pogreb.DB
	ukeys  []string
	states []map[string]string
	model  map[string]string
	step   int
	events []fevent // writer ops and sync points with log positions (power-loss oracle)

	inlineWeight   []int // weights for inline op kinds at compaction yields: put, del, get, sync, readback
	inlineMax      int
	yieldErr       error
	yields         int
	inlineWriters  int // inline put/del executed inside compactions
	inlineSyncs    int
	compactions    int
	compactedSegs  int
	reclaimed      int
	readbackYields bool
	oversize       bool // allow records larger than a whole segment
	valueLens      []int
	inCompaction   bool
	hotCold        bool
	inlineDeletes  int
	lastHot        bool
	compactRanges  [][2]int // log ranges of Compact calls
	trivialHistory bool     // set by a check whose non-triviality rule the history does not meet
	victims        []string // keys of the directed hazard prefix still to be deleted (inline writers prefer them)

	inlineVictimDeletes int

	wipeDrawn, wipeAllowed bool
}

type fevent struct {
	Start, End int // log positions: op issued at Start, returned at End
	Kind       string
	Key, Val   string
	State      int // index of the state after the op (writer ops)
}

var faultValueLens = []int{0, 1, 5, 20, 60, 60, 300, 490, 506, 520, 1000, 3570, 4090, 4100}

func newFsess(ch core.Chooser, st *core.Stats, base *faultfs.State, cfg dbx.Config, ukeys []string, start map[string]string) *fsess {
	s := &fsess{ch: ch, st: st, cfg: cfg, ukeys: ukeys, model: dbx.Clone(start)}
	if base == nil {
		s.fs = faultfs.New()
	} else {
		s.fs = faultfs.FromState(base)
	}
	s.states = []map[string]string{dbx.Clone(start)}
	s.inlineWeight = []int{4, 3, 1, 0, 2}
	s.inlineMax = 3
	s.valueLens = faultValueLens
	return s
}

// drawUniverse draws a small engineered universe for the fault checks.
func drawUniverse(ch core.Chooser) (uint32, []string) { return drawUniverseP(ch, 15) }

// drawUniverseP: bigPct is the share of universes with 40 keys in one bucket chain (overflow
// buckets in the index of the fault session).
func drawUniverseP(ch core.Chooser, bigPct int) (uint32, []string) {
	seed := uint32(ch.Int("hashseed", 0, 1<<30))
	pinSeed(seed)
	sp := keys.Spec{Identical: 1, LowBits16: 6, LowBits2: 4, Plain: 8, Variant: uint32(ch.Int("univariant", 0, 3))}
	if core.Pct(ch, "bigchain", bigPct) {
		sp.LowBits16 = 40
	}
	u := keys.Build(seed, sp)
	var ks []string
	for _, k := range u.Keys {
		ks = append(ks, string(k))
	}
	return seed, ks
}

func (s *fsess) open() error {
	// see hist.reseed: a different value for freshly drawn hash seeds in this session
	if s.step > 0 && core.Pct(s.ch, "reseed", 30) {
		pinSeed(uint32(s.ch.Int("newseed", 0, 1<<30)))
		s.st.Count("opens_with_changed_seed_override", 1)
	}
	s.fs.Mark("OB")
	dbx.ResetLog()
	db, err := dbx.Open("db", s.cfg, s.fs)
	s.fs.Mark("OE")
	if err != nil {
		return fmt.Errorf("Open failed: %v", err)
	}
	s.db = db
	return nil
}

func (s *fsess) key() string {
	// bias to a few hot keys so that overwrites and deletes of live keys are common
	s.lastHot = false
	if core.Pct(s.ch, "hot", 50) {
		n := 4
		if n > len(s.ukeys) {
			n = len(s.ukeys)
		}
		s.lastHot = true
		return s.ukeys[s.ch.Int("hotkey", 0, n-1)]
	}
	return s.ukeys[s.ch.Int("key", 0, len(s.ukeys)-1)]
}

// vlen draws a value length. With hotCold set, hot keys get small values and cold keys large
// ones, which yields segments of very different fragmentation (some picked for compaction,
// older ones holding stale records of hot keys not picked).
func (s *fsess) vlen() int {
	if s.hotCold {
		if s.lastHot {
			return core.PickInt(s.ch, "vlen_hot", []int{0, 1, 5, 20, 60})
		}
		v := core.PickInt(s.ch, "vlen_cold", []int{120, 300, 490, 506})
		if uint32(v)+600 <= s.cfg.SegSize {
			return v
		}
		return 60
	}
	for i := 0; i < 4; i++ {
		v := core.PickInt(s.ch, "vlen", s.valueLens)
		if s.oversize || uint32(v)+600 <= s.cfg.SegSize {
			return v
		}
	}
	return 5
}

func (s *fsess) put(key string, vlen int) error {
	v := mkValue(s.step, vlen)
	s.step++
	i := len(s.states) - 1
	ev := fevent{Start: s.fs.LogLen(), Kind: "put", Key: key, Val: v, State: i + 1}
	s.fs.Mark("B" + strconv.Itoa(i))
	s.ch.Note("%sput %s len=%d", s.indent(), dbx.K(key), len(v))
	if err := core.Safe(func() error { return s.db.Put([]byte(key), []byte(v)) }); err != nil {
		return fmt.Errorf("Put(%s, %dB) failed: %v", dbx.K(key), len(v), err)
	}
	s.model[key] = v
	s.states = append(s.states, dbx.Clone(s.model))
	if debugEnabled() {
		fmt.Printf("after put %s: %+v\n", dbx.K(key), s.db.VerifSegments())
	}
	s.fs.Mark("E" + strconv.Itoa(i+1))
	ev.End = s.fs.LogLen()
	s.events = append(s.events, ev)
	return nil
}

func (s *fsess) del(key string) error {
	s.step++
	i := len(s.states) - 1
	ev := fevent{Start: s.fs.LogLen(), Kind: "del", Key: key, State: i + 1}
	s.fs.Mark("B" + strconv.Itoa(i))
	s.ch.Note("%sdelete %s", s.indent(), dbx.K(key))
	if err := core.Safe(func() error { return s.db.Delete([]byte(key)) }); err != nil {
		return fmt.Errorf("Delete(%s) failed: %v", dbx.K(key), err)
	}
	delete(s.model, key)
	s.states = append(s.states, dbx.Clone(s.model))
	s.fs.Mark("E" + strconv.Itoa(i+1))
	ev.End = s.fs.LogLen()
	s.events = append(s.events, ev)
	return nil
}

func (s *fsess) indent() string {
	if s.inCompaction {
		return "    [inline] "
	}
	return ""
}

func (s *fsess) sync() error {
	ev := fevent{Start: s.fs.LogLen(), Kind: "sync"}
	s.fs.Mark("SB")
	s.ch.Note("%ssync", s.indent())
	if err := core.Safe(func() error { return s.db.Sync() }); err != nil {
		return fmt.Errorf("Sync failed: %v", err)
	}
	s.fs.Mark("SE")
	ev.End = s.fs.LogLen()
	s.events = append(s.events, ev)
	return nil
}

func (s *fsess) readback(when string) error {
	if err := dbx.CheckAll(s.db, s.model, nil); err != nil {
		return fmt.Errorf("%s: %v", when, err)
	}
	return nil
}

func (s *fsess) get() error {
	k := s.key()
	if err := dbx.CheckPoint(s.db, s.model, k); err != nil {
		return err
	}
	return nil
}

// onYield is the compaction yield callback: it runs drawn operations inline, i.e. exactly where
// a concurrent goroutine could acquire the database lock.
func (s *fsess) onYield(db *pogreb.DB, point string) {
	if s.yieldErr != nil || db != s.db {
		return
	}
	s.yields++
	s.ch.Note("    yield %s", point)
	n := s.ch.Int("inline_n", 0, s.inlineMax)
	if s.inlineWriters > 300 {
		// With tiny segments every inline writer seals a segment and every sealed segment
		// gives the next compaction more yield points: the number of segments then grows
		// geometrically until the (legitimate) limit of 32767 segments is hit. Stay far away.
		n = 0
	}
	for j := 0; j < n; j++ {
		var err error
		switch core.Weighted(s.ch, "inline_op", s.inlineWeight) {
		case 0:
			err = s.put(s.key(), s.vlen())
			s.inlineWriters++
		case 1:
			k := s.key()
			if len(s.victims) > 0 && core.Pct(s.ch, "inline_victim", 60) {
				// late-delete variant: the inline writer deletes the victims (and does not
				// prefer them for puts, which would only hide a resurrection)
				k = s.victims[s.ch.Int("victimkey", 0, len(s.victims)-1)]
			}
			for _, v := range s.victims {
				if v == k {
					if _, live := s.model[k]; live {
						s.inlineVictimDeletes++
					}
				}
			}
			err = s.del(k)
			s.inlineWriters++
			s.inlineDeletes++
		case 2:
			err = s.get()
		case 3:
			err = s.sync()
			s.inlineSyncs++
		case 4:
			err = s.readback("read-back at compaction yield point (" + point + ")")
		}
		if err != nil {
			s.yieldErr = fmt.Errorf("during compaction (yield %q): %v", point, err)
			return
		}
	}
}

func (s *fsess) compact() error {
	s.ch.Note("compact")
	start := s.fs.LogLen()
	before := map[uint64]bool{}
	var curBefore uint64
	_ = core.Safe(func() error {
		for _, sg := range s.db.VerifSegments() {
			before[sg.SequenceID] = true
			if sg.Current {
				curBefore = sg.SequenceID
			}
		}
		return nil
	})
	inlineBefore := s.inlineDeletes
	victimDelBefore := s.inlineVictimDeletes
	s.fs.Mark("CB")
	pogreb.VerifCompactionYield = s.onYield
	s.inCompaction = true
	var cr pogreb.CompactionResult
	err := core.Safe(func() error {
		var e error
		cr, e = s.db.Compact()
		return e
	})
	s.inCompaction = false
	pogreb.VerifCompactionYield = nil
	s.fs.Mark("CE")
	if s.yieldErr != nil {
		return s.yieldErr
	}
	if err != nil {
		return fmt.Errorf("Compact failed: %v", err)
	}
	s.compactions++
	s.compactedSegs += cr.CompactedSegments
	// classification: did this compaction remove a segment while an older one survived, and
	// did a delete slip in meanwhile (the delete-marker hazard)?
	_ = core.Safe(func() error {
		after := map[uint64]bool{}
		var minSurvivor uint64 = 1 << 62
		for _, sg := range s.db.VerifSegments() {
			after[sg.SequenceID] = true
			if before[sg.SequenceID] && sg.SequenceID < minSurvivor {
				minSurvivor = sg.SequenceID
			}
		}
		removedNewer := 0
		for seq := range before {
			if !after[seq] && seq > minSurvivor {
				removedNewer++
			}
		}
		if len(s.victims) > 0 {
			s.st.Count("late_delete_compactions", 1)
			if curBefore != 0 && !after[curBefore] {
				s.st.Count("late_delete_compactions_removing_the_segment_that_was_current", 1)
				if removedNewer > 0 && s.inlineVictimDeletes > victimDelBefore {
					s.st.Count("late_delete_compactions_with_inline_victim_delete_and_older_survivor", 1)
				}
			}
			if s.inlineVictimDeletes > victimDelBefore {
				s.st.Count("late_delete_compactions_with_inline_victim_delete", 1)
			}
		}
		if removedNewer > 0 {
			s.st.Count("compactions_removing_newer_than_a_survivor", 1)
			if removedNewer > 1 {
				s.st.Count("compactions_removing_2plus_newer_than_a_survivor", 1)
				if s.inlineDeletes > inlineBefore {
					s.st.Count("compactions_removing_2plus_newer_than_a_survivor_with_inline_delete", 1)
				}
			}
		}
		return nil
	})
	s.reclaimed += cr.ReclaimedRecords
	s.compactRanges = append(s.compactRanges, [2]int{start, s.fs.LogLen()})
	s.ch.Note("    -> %+v", cr)
	return nil
}

func (s *fsess) closeDB() error {
	s.fs.Mark("XB")
	s.ch.Note("close")
	err := core.Safe(func() error { return s.db.Close() })
	s.fs.Mark("XE")
	s.db = nil
	if err != nil {
		return fmt.Errorf("Close failed: %v", err)
	}
	return nil
}

func (s *fsess) reopen() error {
	if err := s.closeDB(); err != nil {
		return err
	}
	s.ch.Note("open")
	if err := s.open(); err != nil {
		return err
	}
	if dbx.RecoveryRan() {
		return fmt.Errorf("Open after a clean Close ran recovery")
	}
	return s.readback("after clean restart")
}

// kill abandons the handle the way a killed process does (nothing written, lock file stays)
// and opens again: the Open is a recovery. Data written so far is not lost (process crash).
func (s *fsess) killAndRecover() error {
	s.ch.Note("kill process + recover")
	s.db = nil
	s.fs.KillLocks()
	if debugEnabled() {
		fmt.Println("segments before recovery:\n" + describeSegments(s.fs.Snapshot(), "db"))
	}
	if err := s.open(); err != nil {
		return fmt.Errorf("recovering %v", err)
	}
	return s.readback("after kill + recovery")
}

func (s *fsess) numSegments() int {
	n := 0
	_ = core.Safe(func() error { n = len(s.db.VerifSegments()); return nil })
	return n
}

// fillUntilRollover puts keys of the given set, in order and cyclically, until the log rolls
// over, at most max puts.
func (s *fsess) fillUntilRollover(from []string, vlens []int, max int) error {
	if len(from) == 0 {
		return nil
	}
	before := s.numSegments()
	for i := 0; i < max; i++ {
		if err := s.put(from[i%len(from)], core.PickInt(s.ch, "filler_vlen", vlens)); err != nil {
			return err
		}
		if s.numSegments() > before {
			return nil
		}
	}
	return nil
}

// hazardPrefill is a directed prefix aimed at the delete-marker hazard of compaction: victim
// keys are put into an old segment that stays (almost) free of garbage, so that it is not
// picked for compaction on its own merits; newer segments receive the victims' overwrites and
// delete records together with churn on *other* keys that fragments them (they become eligible
// on their own merits); optionally the process is killed and recovered before the compaction
// (the segment metadata compaction relies on is then what recovery rebuilt). Whether a delete
// marker may be dropped depends on the older segment being compacted along - a stale put that
// survives resurrects the key at the next recovery.
// Variant "late delete": the victims are neither overwritten nor deleted in the prefix (no
// delete record exists when Compact picks); two fragmented newer segments are built, the second
// one still current; the writers that run inline during the compaction prefer the victims.
func (s *fsess) hazardPrefill() error {
	s.ch.Note("-- directed prefix: delete-marker hazard")
	off := s.ch.Int("hazard_offset", 0, len(s.ukeys)-1)
	rot := append(append([]string{}, s.ukeys[off:]...), s.ukeys[:off]...)
	nv := s.ch.Int("victims", 1, 3)
	if nv > len(rot)-4 {
		nv = 1
	}
	vs := rot[:nv]
	na := 6
	if na > len(rot)-nv-2 {
		na = (len(rot) - nv) / 2
	}
	aKeys, bKeys := rot[nv:nv+na], rot[nv+na:]
	// old segment: the victims' first puts, then distinct filler keys written once
	for _, k := range vs {
		if err := s.put(k, core.PickInt(s.ch, "victim_vlen", []int{1, 20, 60, 120})); err != nil {
			return err
		}
	}
	if core.Pct(s.ch, "seal_old", 85) {
		if err := s.fillUntilRollover(aKeys, []int{60, 120, 300}, len(aKeys)); err != nil {
			return err
		}
		if err := s.fillUntilRollover(bKeys, []int{120, 300}, 8); err != nil {
			return err
		}
	}
	late := core.Pct(s.ch, "late_delete", 40)
	if late {
		s.victims = vs
		s.st.Count("hazard_prefixes_late_delete", 1)
	}
	// variant "pristine": the newer segment receives nothing but the victims' delete records
	// and distinct keys written once (no record of it is ever superseded before the crash);
	// then recovery, a clean restart and a few overwrites of its keys. Whatever the database
	// knows about that segment afterwards is what survived Close and Open after the recovery.
	pristine := !late && core.Pct(s.ch, "pristine_newer_segment", 35)
	if pristine {
		for _, k := range vs {
			if err := s.del(k); err != nil {
				return err
			}
		}
		before := s.numSegments()
		var written []string
		for _, k := range bKeys {
			if err := s.put(k, core.PickInt(s.ch, "pristine_vlen", []int{120, 300})); err != nil {
				return err
			}
			written = append(written, k)
			if s.numSegments() > before {
				break
			}
		}
		if err := s.killAndRecover(); err != nil {
			return err
		}
		if err := s.reopen(); err != nil {
			return err
		}
		// overwrite one to three of those keys - or, in 60 %, all of them: everything the newer
		// segment holds apart from the delete records becomes garbage, which makes it eligible
		// under most thresholds on what this session alone knows about it
		nTouch := s.ch.Int("pristine_touch", 1, 3)
		if core.Pct(s.ch, "pristine_touch_all", 60) {
			nTouch = len(written)
		}
		for i, n := 0, nTouch; i < n && i < len(written); i++ {
			if err := s.put(written[i], core.PickInt(s.ch, "churn_vlen", []int{5, 20, 60})); err != nil {
				return err
			}
		}
		s.st.Count("hazard_prefixes_pristine", 1)
		s.st.Count("hazard_prefixes", 1)
		return nil
	}
	// newer segment: overwrite and/or delete the victims
	for _, k := range vs {
		if late {
			break
		}
		if core.Pct(s.ch, "victim_overwrite", 60) {
			if err := s.put(k, core.PickInt(s.ch, "victim_vlen2", []int{0, 5, 60})); err != nil {
				return err
			}
		}
		if core.Pct(s.ch, "victim_delete", 85) {
			if err := s.del(k); err != nil {
				return err
			}
		}
	}
	// churn on keys that do not live in the old segment
	lastHot := ""
	churn := func(label string) error {
		hot := bKeys[s.ch.Int(label, 0, len(bKeys)-1)]
		lastHot = hot
		lo, vl := 0, []int{5, 20, 60}
		if late && label == "churnkey2" {
			// enough garbage for the segment that is current when Compact is called to be
			// eligible on its own merits under most drawn thresholds
			lo, vl = 5, []int{60, 120}
		}
		for i, n := 0, s.ch.Int("churn_n", lo, 8+lo); i < n; i++ {
			if err := s.put(hot, core.PickInt(s.ch, "churn_vlen", vl)); err != nil {
				return err
			}
		}
		return nil
	}
	if err := churn("churnkey"); err != nil {
		return err
	}
	if late {
		// two fragmented newer segments, the second one still current when Compact is called:
		// both get picked on their own merits, the old segment with the victims does not
		if err := s.fillUntilRollover(bKeys, []int{20, 60, 120}, 30); err != nil {
			return err
		}
		if err := churn("churnkey2"); err != nil {
			return err
		}
	} else if core.Pct(s.ch, "seal_new", 70) {
		if err := s.fillUntilRollover(bKeys, []int{20, 60, 120, 300}, 30); err != nil {
			return err
		}
	}
	if core.Pct(s.ch, "recover_before_compaction", 50) {
		if err := s.killAndRecover(); err != nil {
			return err
		}
		s.st.Count("hazard_prefix_with_recovery_before_compaction", 1)
		if core.Pct(s.ch, "clean_restart_after_recovery", 50) {
			// what the recovery rebuilt in memory (segment metadata above all) has to survive
			// being persisted by Close and reloaded by a clean Open before compaction uses it
			if err := s.reopen(); err != nil {
				return err
			}
			s.st.Count("hazard_prefix_with_clean_restart_after_recovery", 1)
			// garbage produced in the new session in a segment loaded from disk (the newer
			// segment becomes eligible again on what this session knows about it)
			for i, n := 0, s.ch.Int("touch_after_restart", 0, 3); i < n && lastHot != ""; i++ {
				if err := s.put(lastHot, core.PickInt(s.ch, "churn_vlen", []int{5, 20, 60})); err != nil {
					return err
				}
			}
		}
	}
	s.st.Count("hazard_prefixes", 1)
	return nil
}

// runOps executes n drawn top-level operations with the given weights:
// put, del, compact, sync, reopen, get, kill+recover.
func (s *fsess) runOps(n int, weights []int) error {
	for j := 0; j < n; j++ {
		var err error
		switch core.Weighted(s.ch, "op", weights) {
		case 0:
			err = s.put(s.key(), s.vlen())
		case 1:
			err = s.del(s.key())
		case 2:
			err = s.compact()
			if err == nil {
				err = s.readback("after Compact")
			}
		case 3:
			err = s.sync()
		case 4:
			err = s.reopen()
		case 5:
			err = s.get()
		case 6:
			err = s.killAndRecover()
		case 7:
			err = s.wipe()
		}
		if err != nil {
			return err
		}
	}
	return nil
}

// wipe deletes every live key and compacts without inline writers: with suitable thresholds the
// compaction removes every segment, the current one included, and the directory is left with
// index files only. A fifth of the sessions allow it (it destroys whatever shape the history had
// built); in the others the operation is a point read.
func (s *fsess) wipe() error {
	if !s.wipeDrawn {
		s.wipeDrawn, s.wipeAllowed = true, core.Pct(s.ch, "wipe_allowed", 20)
	}
	if !s.wipeAllowed {
		return s.get()
	}
	var live []string
	for k := range s.model {
		live = append(live, k)
	}
	sort.Strings(live)
	for _, k := range live {
		if err := s.del(k); err != nil {
			return err
		}
	}
	saved := s.inlineMax
	s.inlineMax = 0
	err := s.compact()
	s.inlineMax = saved
	if err != nil {
		return err
	}
	s.st.Count("wipes", 1)
	if s.numSegments() == 0 {
		s.st.Count("wipes_after_which_no_segment_file_is_left", 1)
	}
	return s.readback("after deleting everything and Compact")
}

// logWalker tracks, while walking the log, which model states are admissible at a crash point.
type logWalker struct {
	lo, hi   int    // admissible state indices (lo == hi when no writer op is in flight)
	inside   string // innermost non-writer API call in progress ("C","X","O","S" or "")
	inWriter bool
	depth    map[string]int
}

func newLogWalker(startState int) *logWalker {
	return &logWalker{lo: startState, hi: startState, depth: map[string]int{}}
}

// see processes a marker op.
func (w *logWalker) see(op faultfs.Op) {
	if op.Kind != faultfs.OpMark {
		return
	}
	m := op.Mark
	switch {
	case m[0] == 'B':
		i, _ := strconv.Atoi(m[1:])
		w.lo, w.hi = i, i+1
		w.inWriter = true
	case m[0] == 'E':
		i, _ := strconv.Atoi(m[1:])
		w.lo, w.hi = i, i
		w.inWriter = false
	case len(m) == 2 && m[1] == 'B':
		w.depth[m[:1]]++
	case len(m) == 2 && m[1] == 'E':
		w.depth[m[:1]]--
	}
}

func (w *logWalker) context() string {
	var parts []string
	for _, k := range []string{"O", "C", "X", "S"} {
		if w.depth[k] > 0 {
			parts = append(parts, map[string]string{"O": "Open", "C": "Compact", "X": "Close", "S": "Sync"}[k])
		}
	}
	if w.inWriter {
		parts = append(parts, "writer")
	}
	if len(parts) == 0 {
		return "idle"
	}
	return strings.Join(parts, "+")
}

// imageResult is what opening a crash image produced.
type imageResult struct {
	Matched int // index into allowed
	Got     map[string]string
	DB      *pogreb.DB
	FS      *faultfs.FS
}

// checkImage opens the image with the real Open (a recovery when the lock file is present) and
// demands that contents, Count and point reads equal exactly one of the allowed states.
func checkImage(img *faultfs.State, cfg dbx.Config, ukeys []string, allowed []map[string]string, desc string) (*imageResult, error) {
	fs2 := faultfs.Adopt(img)
	db, err := dbx.Open("db", cfg, fs2)
	if err != nil {
		return nil, fmt.Errorf("%s: Open of the crash image failed: %v", desc, err)
	}
	got, err := dbx.Dump(db)
	if err != nil {
		return nil, fmt.Errorf("%s: reading the recovered database: %v", desc, err)
	}
	for i, a := range allowed {
		if dbx.Equal(got, a) {
			// point reads (Get, GetAppend, Has) of a rotating sample of the universe
			for j := 0; j < len(ukeys) && j < 10; j++ {
				k := ukeys[(j*7+len(got)+len(desc))%len(ukeys)]
				if err := dbx.CheckPoint(db, a, k); err != nil {
					return nil, fmt.Errorf("%s: recovered database: %v", desc, err)
				}
			}
			// the log a recovery (or a clean open) leaves behind must itself be a valid
			// record sequence that replays to the same contents: otherwise the next crash
			// recovers to something else (independent decoder of the documented format)
			if err := logConsistent(fs2, got); err != nil {
				return nil, fmt.Errorf("%s: %v", desc, err)
			}
			return &imageResult{Matched: i, Got: got, DB: db, FS: fs2}, nil
		}
	}
	var sb strings.Builder
	for i, a := range allowed {
		fmt.Fprintf(&sb, "\n  vs admissible state %d: %s", i, dbx.Diff(got, a))
	}
	return nil, fmt.Errorf("%s: recovered contents match no admissible state (%d keys recovered)%s", desc, len(got), sb.String())
}

// logConsistent checks, with the independent decoder, that every segment file of the opened
// database is a valid record sequence up to its very end and that replaying the segments in
// sequence order yields exactly the contents the database serves.
func logConsistent(fsys *faultfs.FS, got map[string]string) error {
	files := dirFiles(fsys.Snapshot(), "db")
	replayed, ends, err := format.Replay(files)
	if err != nil {
		return fmt.Errorf("after Open the segment files are not readable by the independent decoder: %v", err)
	}
	for name, end := range ends {
		if l := len(files[name]); l != end && l != 0 {
			return fmt.Errorf("after Open segment %s is %d bytes long but its valid record prefix ends at %d: the next recovery will discard or misread what follows", name, l, end)
		}
	}
	if !dbx.Equal(replayed, got) {
		return fmt.Errorf("after Open the database serves contents that differ from a replay of its own log (what the next recovery would produce): %s", dbx.Diff(got, replayed))
	}
	return nil
}
