#!/usr/bin/env python3
"""Sensitivity sweep with hand-written mutants (development aid).

Each mutant is an exact-text replacement in one file of a scratch worktree of /repo HEAD (or the
reverse application of one `fix:` commit). A mutant counts only if it builds and the existing
test suite still passes with it. The listed checks are then run (quick tier) against the
worktree through VERIF_REPO; nothing in /repo or in the committed evidence is touched.

usage: tools/mutants.py [name ...]      (default: all)    output: one line per mutant x check
"""
import os
import subprocess
import sys

ENV = dict(os.environ, GOFLAGS="-mod=mod", GOPROXY="off", GOSUMDB="off", GOTOOLCHAIN="local")

# name, file, old, new, checks
M = [
    ("free-bucket-handed-out-twice", "index.go", "\t\tidx.freeBucketOffs = idx.freeBucketOffs[1:]\n", "", ["C01", "C02"]),
    ("bucket-del-keeps-last-slot", "bucket.go", "\tb.slots[i] = slot{}\n", "", ["C01", "C11"]),
    ("delete-does-not-count", "index.go", "\t\t\tidx.numKeys--\n", "", ["C01"]),
    ("get-trusts-hash-and-length", "db.go",
     "\t\tif bytes.Equal(key, slKey) {\n\t\t\tretValue = cloneBytes(value)\n\t\t\treturn true, nil\n\t\t}\n\t\tdb.metrics.HashCollisions.Add(1)\n\t\treturn false, nil",
     "\t\t_ = slKey\n\t\tretValue = cloneBytes(value)\n\t\treturn true, nil", ["C01", "C16"]),
    ("key-limit-off-by-one", "db.go", "\tif len(key) > MaxKeyLength {\n\t\treturn errKeyTooLarge", "\tif len(key) >= MaxKeyLength {\n\t\treturn errKeyTooLarge", ["C16"]),
    ("value-limit-off-by-one", "db.go", "\tif len(value) > MaxValueLength {", "\tif len(value) >= MaxValueLength {", ["C16"]),
    ("sync-writes-mode-does-not-sync-put", "db.go",
     "\tif err := db.put(sl, key); err != nil {\n\t\treturn err\n\t}\n\n\tif db.syncWrites {\n\t\treturn db.sync()\n\t}\n\treturn nil",
     "\tif err := db.put(sl, key); err != nil {\n\t\treturn err\n\t}\n\n\treturn nil", ["C06"]),
    ("promote-checks-hash-only", "compaction.go",
     "\t\t\tif hash != sl.hash || rec.offset != sl.offset || rec.segmentID != sl.segmentID {",
     "\t\t\tif hash != sl.hash {", ["C05", "C01"]),
    ("crc-skips-length-fields", "segment.go", None, None, ["C18", "C08"]),  # handled below (two sites)
    ("slot-fields-swapped", "bucket.go", None, None, ["C18"]),
    ("segment-name-4-digits", "segment.go", 'fmt.Sprintf("%05d-%d%s"', 'fmt.Sprintf("%04d-%d%s"', ["C18"]),
    ("format-version-3", "header.go", "formatVersion = 2", "formatVersion = 3", ["C18"]),
    ("iterator-does-not-clone-value", "iterator.go", "\t\t\tvalue = cloneBytes(value)\n", "", ["C14"]),
    ("get-does-not-clone", "db.go", "\t\t\tretValue = cloneBytes(value)\n", "\t\t\tretValue = value\n", ["C14"]),
    ("backup-copies-whole-active-segment", "backup.go", "\t\t\tif _, err := io.CopyN(dstFile, srcFile, srcSize); err != nil {", "\t\t\t_ = srcSize\n\t\t\tif _, err := io.Copy(dstFile, srcFile); err != nil {", ["C12"]),
    ("count-without-lock", "db.go", "func (db *DB) Count() uint32 {\n\tdb.mu.RLock()\n\tdefer db.mu.RUnlock()\n", "func (db *DB) Count() uint32 {\n", ["C10"]),
    ("sync-without-lock", "db.go", "func (db *DB) Sync() error {\n\tdb.mu.Lock()\n\tdefer db.mu.Unlock()\n", "func (db *DB) Sync() error {\n", ["C10"]),
    ("get-without-lock", "db.go", "\tdb.metrics.Gets.Add(1)\n\tdb.mu.RLock()\n\tdefer db.mu.RUnlock()\n\tvar retValue []byte\n\terr := db.index.get(h, func(sl slot) (bool, error) {\n\t\tif uint16(len(key)) != sl.keySize {\n\t\t\treturn false, nil\n\t\t}\n\t\tslKey, value, err := db.datalog.readKeyValue(sl)\n\t\tif err != nil {\n\t\t\treturn true, err\n\t\t}\n\t\tif bytes.Equal(key, slKey) {\n\t\t\tretValue = cloneBytes(value)",
     "\tdb.metrics.Gets.Add(1)\n\tvar retValue []byte\n\terr := db.index.get(h, func(sl slot) (bool, error) {\n\t\tif uint16(len(key)) != sl.keySize {\n\t\t\treturn false, nil\n\t\t}\n\t\tslKey, value, err := db.datalog.readKeyValue(sl)\n\t\tif err != nil {\n\t\t\treturn true, err\n\t\t}\n\t\tif bytes.Equal(key, slKey) {\n\t\t\tretValue = cloneBytes(value)", ["C07", "C10"]),
    ("mmap-truncate-keeps-size", "fs/os_mmap_unix.go", "\tf.size = size\n\treturn f.mremap()", "\treturn f.mremap()", ["C17"]),
    ("unlock-closes-before-unlink", "fs/os.go",
     "\tverifLockYield(\"unlink\")\n\tif err := os.Remove(f.path); err != nil {\n\t\treturn err\n\t}\n\tverifLockYield(\"close\")\n\treturn f.Close()",
     "\tverifLockYield(\"close\")\n\tif err := f.Close(); err != nil {\n\t\treturn err\n\t}\n\tverifLockYield(\"unlink\")\n\treturn os.Remove(f.path)", ["C13"]),
    ("close-does-not-sync-index", "index.go", None, None, ["C09"]),
    ("recovery-sorts-by-physical-id", "datalog.go", None, None, ["C03", "C04"]),
]

# reverse application of fix commits (sensitivity for every historical defect)
R = [
    ("479936a", ["C01"]), ("2ac781a", ["C03", "C16"]), ("e0775d8", ["C04"]), ("d268122", ["C05", "C04"]),
    ("9732e60", ["C06"]), ("cccfe0c", ["C09"]), ("39eab70", ["C06"]), ("75f3138", ["C06"]), ("a9fdae1", ["C06"]),
    ("d8e67d5", ["C19"]), ("dd738ac", ["C15"]), ("74adbaa", ["C13"]), ("40a8919", ["C10"]),
]


def sh(cmd, cwd=None, env=ENV, timeout=3600):
    p = subprocess.run(cmd, shell=True, cwd=cwd, env=env, stdout=subprocess.PIPE, stderr=subprocess.STDOUT, text=True, timeout=timeout)
    return p.returncode, p.stdout


def special(name, wt):
    """Mutants that touch two sites."""
    def rw(path, pairs):
        p = os.path.join(wt, path)
        s = open(p).read()
        for old, new in pairs:
            if s.count(old) != 1:
                return False
            s = s.replace(old, new)
        open(p, "w").write(s)
        return True
    if name == "crc-skips-length-fields":
        return rw("segment.go", [
            ("checksum := crc32.ChecksumIEEE(data[:6+len(key)+len(value)])", "checksum := crc32.ChecksumIEEE(data[6 : 6+len(key)+len(value)])"),
        ]) and patch_decoder_crc(wt)
    if name == "slot-fields-swapped":
        return rw("bucket.go", [
            ("\t\tbinary.LittleEndian.PutUint16(buf[4:6], sl.segmentID)\n\t\tbinary.LittleEndian.PutUint16(buf[6:8], sl.keySize)",
             "\t\tbinary.LittleEndian.PutUint16(buf[4:6], sl.keySize)\n\t\tbinary.LittleEndian.PutUint16(buf[6:8], sl.segmentID)"),
            ("\t\tb.slots[i].segmentID = binary.LittleEndian.Uint16(data[4:6])\n\t\tb.slots[i].keySize = binary.LittleEndian.Uint16(data[6:8])",
             "\t\tb.slots[i].keySize = binary.LittleEndian.Uint16(data[4:6])\n\t\tb.slots[i].segmentID = binary.LittleEndian.Uint16(data[6:8])"),
        ])
    if name == "close-does-not-sync-index":
        p = os.path.join(wt, "index.go")
        s = open(p).read()
        i = s.find("func (idx *index) close() error {")
        if i < 0:
            return False
        j = s.find("\n}\n", i)
        body = s[i:j]
        nb = body.replace("idx.main.Sync()", "error(nil)").replace("idx.overflow.Sync()", "error(nil)")
        if nb == body:
            return False
        open(p, "w").write(s[:i] + nb + s[j:])
        return True
    if name == "recovery-sorts-by-physical-id":
        return rw("datalog.go", [("segments[i].sequenceID < segments[j].sequenceID", "segments[i].id < segments[j].id")])
    return False


def patch_decoder_crc(wt):
    p = os.path.join(wt, "segment.go")
    s = open(p).read()
    # reader side: find the checksum comparison in segmentIterator.next
    for old, new in [
        ("crc32.ChecksumIEEE(data[:len(data)-4])", "crc32.ChecksumIEEE(data[6 : len(data)-4])"),
        ("crc32.ChecksumIEEE(data[:recordSize-4])", "crc32.ChecksumIEEE(data[6 : recordSize-4])"),
    ]:
        if s.count(old) == 1:
            open(p, "w").write(s.replace(old, new))
            return True
    return False


def run_one(name, prepare, checks):
    wt = "/tmp/wt/mut-" + name
    sh("git -C /repo worktree remove --force %s" % wt)
    rc, out = sh("git -C /repo worktree add -q --detach %s HEAD" % wt)
    if rc != 0:
        print("%s WORKTREE-FAILED" % name, flush=True)
        return
    try:
        if not prepare(wt):
            print("%s DOES-NOT-APPLY" % name, flush=True)
            return
        rc, out = sh("go build ./... && go build -tags verif ./...", cwd=wt)
        if rc != 0:
            print("%s DOES-NOT-BUILD %s" % (name, out[-200:].replace("\n", " ")), flush=True)
            return
        rc, out = sh("go test -vet=off -count=1 ./...", cwd=wt)
        suite = "suite-passes" if rc == 0 else "SUITE-FAILS(not a realistic mutant)"
        for c in checks:
            env = dict(ENV, VERIF_REPO=wt, VERIF_SEED=os.environ.get("VERIF_SEED", "1"))
            rc, out = sh("./check %s quick" % c, cwd="/verif", env=env)
            lines = out.splitlines()
            v = [l for l in lines if l.startswith("VIOLATION")]
            if v:
                i = lines.index(v[0])
                why = lines[i + 1].strip()[:150] if i + 1 < len(lines) else ""
                print("%s %s %s CAUGHT %s" % (name, suite, c, why), flush=True)
            elif any(l.startswith("OK ") for l in lines):
                print("%s %s %s MISSED" % (name, suite, c), flush=True)
            else:
                inc = [l for l in lines if "INCONCLUSIVE" in l or "BUILD FAILED" in l]
                print("%s %s %s INCONCLUSIVE %s" % (name, suite, c, (inc[0] if inc else "")[:200]), flush=True)
    finally:
        sh("git -C /repo worktree remove --force %s" % wt)


def main():
    sel = set(sys.argv[1:])
    os.makedirs("/tmp/wt", exist_ok=True)
    for name, path, old, new, checks in M:
        if sel and name not in sel:
            continue
        if old is None:
            prep = (lambda n: (lambda wt: special(n, wt)))(name)
        else:
            def prep(wt, path=path, old=old, new=new):
                p = os.path.join(wt, path)
                s = open(p).read()
                if s.count(old) != 1:
                    return False
                open(p, "w").write(s.replace(old, new))
                return True
        run_one(name, prep, checks)
    for commit, checks in R:
        name = "revert-" + commit
        if sel and name not in sel:
            continue
        def prep(wt, commit=commit):
            rc, _ = sh("git show %s -- . ':!verif_export.go' | git apply -R" % commit, cwd=wt)
            return rc == 0
        run_one(name, prep, checks)


if __name__ == "__main__":
    main()
