package pogreb

import (
	"encoding/gob"

	"verif/harness/pinned/fs"
)

func readGobFile(fsys fs.FileSystem, name string, v interface{}) error {
	f, err := openFile(fsys, name, openFileFlags{readOnly: true})
	if err != nil {
		return err
	}
	defer f.Close()
	dec := gob.NewDecoder(f)
	return dec.Decode(v)
}

func writeGobFile(fsys fs.FileSystem, name string, v interface{}) error {
	f, err := openFile(fsys, name, openFileFlags{truncate: true})
	if err != nil {
		return err
	}
	defer f.Close()
	enc := gob.NewEncoder(f)
	return enc.Encode(v)
}
