//go:build !(plan9 || windows)
// +build !plan9,!windows

package fs

import (
	"os"
	"syscall"
	"unsafe"
)

func mmap(f *os.File, fileSize int64, mappingSize int64) ([]byte, error) {
	p, err := syscall.Mmap(int(f.Fd()), 0, int(mappingSize), syscall.PROT_READ, syscall.MAP_SHARED)
	return p, err
}

func munmap(data []byte) error {
	return syscall.Munmap(data)
}

func madviceRandom(data []byte) error {
	_, _, errno := syscall.Syscall(syscall.SYS_MADVISE, uintptr(unsafe.Pointer(&data[0])), uintptr(len(data)), uintptr(syscall.MADV_RANDOM))
	if errno != 0 {
		return errno
	}
	return nil
}

func (f *osMMapFile) Truncate(size int64) error {
	if err := f.File.Truncate(size); err != nil {
		return err
	}
	f.size = size
	return f.mremap()
}
