package errors

import (
	"errors"
	"fmt"
)

type wrappedError struct {
	cause error
	msg   string
}

func (we wrappedError) Error() string {
	return we.msg + ": " + we.cause.Error()
}

func (we wrappedError) Unwrap() error {
	return we.cause
}

// New returns an error that formats as the given text.
func New(text string) error {
	return errors.New(text)
}

// Wrap returns an error annotating err with an additional message.
// Compatible with Go 1.13 error chains.
func Wrap(cause error, message string) error {
	return wrappedError{
		cause: cause,
		msg:   message,
	}
}

// Wrapf returns an error annotating err with an additional formatted message.
// Compatible with Go 1.13 error chains.
func Wrapf(cause error, format string, a ...interface{}) error {
	return wrappedError{
		cause: cause,
		msg:   fmt.Sprintf(format, a...),
	}
}
