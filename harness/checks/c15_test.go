package checks

import (
	"fmt"
	"os"
	"path/filepath"
	"strings"
	"testing"

	"github.com/akrylysov/pogreb"

	"verif/harness/core"
	"verif/harness/dbx"
)

func fdCount(dir string) (n int, deleted int) {
	es, _ := os.ReadDir("/proc/self/fd")
	for _, e := range es {
		l, err := os.Readlink("/proc/self/fd/" + e.Name())
		if err == nil && strings.HasPrefix(l, dir+"/") {
			n++
			if strings.HasSuffix(l, "(deleted)") {
				deleted++
			}
		}
	}
	return
}

func mapCount(dir string) int {
	b, _ := os.ReadFile("/proc/self/maps")
	return strings.Count(string(b), dir+"/")
}

// checkDirectory classifies every file of the directory against the live segments.
func checkDirectory(env *Env, db *pogreb.DB, when string) (segBytes int64, err error) {
	live := map[string]bool{}
	var segs []pogreb.VerifSegment
	if e := core.Safe(func() error { segs = db.VerifSegments(); return nil }); e != nil {
		return 0, e
	}
	for _, sg := range segs {
		live[sg.Name] = true
	}
	files, ferr := env.Files()
	if ferr != nil {
		return 0, &core.Inconclusive{Msg: ferr.Error()}
	}
	for name, data := range files {
		switch {
		case name == "lock" || name == "db.pmt" || name == "index.pmt" || name == "main.pix" || name == "overflow.pix":
		case strings.HasSuffix(name, ".psg"):
			if !live[name] {
				return 0, fmt.Errorf("%s: segment file %s is in the directory but does not belong to a live segment", when, name)
			}
			segBytes += int64(len(data))
		case strings.HasSuffix(name, ".psg.pmt"):
			if !live[strings.TrimSuffix(name, ".pmt")] {
				return 0, fmt.Errorf("%s: metadata side file %s is left behind, its segment is gone", when, name)
			}
		default:
			return 0, fmt.Errorf("%s: unexpected file %s in the database directory", when, name)
		}
	}
	for name := range live {
		if _, ok := files[name]; !ok {
			return 0, fmt.Errorf("%s: live segment %s has no file", when, name)
		}
	}
	if env.Kind == "os" || env.Kind == "mmap" {
		fds, _ := fdCount(env.Dir)
		if fds > len(live)+3 {
			return 0, fmt.Errorf("%s: %d open descriptors point into the directory, %d live segments + index files + lock expected at most %d", when, fds, len(live), len(live)+3)
		}
		if env.Kind == "mmap" {
			if m := mapCount(env.Dir); m > len(live)+2 {
				return 0, fmt.Errorf("%s: %d memory mappings of directory files, at most %d expected for %d live segments", when, m, len(live)+2, len(live))
			}
		}
	}
	return segBytes, nil
}

// C15: compaction reclaims space, nothing leaks, the database stays usable.
func propC15(ch core.Chooser, st *core.Stats) error {
	pinSeed(uint32(ch.Int("hashseed", 0, 1<<30)))
	kind := drawEnvKind(ch, []string{"os", "mmap", "os", "mmap", "fault", "mem"})
	env := NewEnv(kind)
	defer env.Cleanup()
	cfg := dbx.Config{
		SegSize: uint32(core.PickInt(ch, "segsize", []int{1024, 4096, 16384})),
		MinSeg:  uint32(core.PickInt(ch, "minseg", []int{520, 600, 1024})),
		Frag:    []float32{0.02, 0.1, 0.3, 0.5}[ch.Int("frag", 0, 3)],
	}
	cfg.SyncWrites = core.Pct(ch, "syncwrites", 15)
	nkeys := ch.Int("nkeys", 5, 120)
	// steady-state variant (drawn): every round overwrites every key once, restarts cleanly and
	// only then compacts. Whatever the database knows about garbage has to survive the restart:
	// a directory that grows with the number of rounds instead of staying near the live data
	// crosses the space bound at the end.
	steady := core.Pct(ch, "steady", 25)
	if steady {
		if nkeys < 50 {
			nkeys = 50
		}
		// the drawn thresholds must make a fully dead segment eligible at all: with tiny
		// segments the 512-byte header counts as live space (a 1 KiB segment never reaches a
		// fragmentation of 0.5) and a minimum size equal to the maximum size excludes every
		// segment sealed by a record that did not fit - artefacts of the test thresholds
		cfg.MinSeg = 520
		if cfg.Frag > 0.3 {
			cfg.Frag = 0.3
		}
		if cfg.SegSize < 4096 {
			cfg.SegSize = 4096
		}
		st.Count("runs_steady_overwrite_restart_compact", 1)
	}
	ch.Note("config: %s fs=%s keys=%d steady=%v", cfg, kind, nkeys, steady)
	db, err := dbx.Open(env.Dir, cfg, env.FS)
	if err != nil {
		return err
	}
	defer func() {
		if db != nil {
			_ = core.Safe(func() error { return db.Close() })
		}
	}()
	model := map[string]string{}
	key := func(i int) string { return fmt.Sprintf("key%03d", i) }
	reopen := func(when string) error {
		if err := core.Safe(func() error { return db.Close() }); err != nil {
			db = nil
			return fmt.Errorf("%s: Close failed: %v", when, err)
		}
		db = nil
		if core.Pct(ch, "reseed", 30) {
			pinSeed(uint32(ch.Int("newseed", 0, 1<<30))) // see hist.reseed
		}
		var err error
		db, err = dbx.Open(env.Dir, cfg, env.FS)
		if err != nil {
			return fmt.Errorf("%s: reopen failed: %v", when, err)
		}
		st.Count("restarts", 1)
		_, err = checkDirectory(env, db, when)
		return err
	}
	// sessions that end without having written anything (the newest segment may be empty when
	// it is closed and reopened): right after creation, and later as back-to-back restarts
	if core.Pct(ch, "initial_empty_session", 30) {
		ch.Note("initial session without writes")
		if err := reopen("after an initial session without writes"); err != nil {
			return err
		}
		st.Count("initial_empty_sessions", 1)
	}
	rounds := ch.Int("rounds", 3, core.Scale(30, 200))
	if steady {
		rounds = ch.Int("steady_rounds", 20, core.Scale(30, 150))
	}
	removing, restartsBetween, lastRemovingRound := 0, 0, -1
	restartSinceRemoving := false
	step := 0
	usable := func(when string) error {
		return core.Safe(func() error {
			if err := db.Sync(); err != nil {
				return fmt.Errorf("%s: Sync failed: %v", when, err)
			}
			k := key(nkeys + 1)
			if err := db.Put([]byte(k), []byte("probe")); err != nil {
				return fmt.Errorf("%s: Put failed: %v", when, err)
			}
			if v, err := db.Get([]byte(k)); err != nil || string(v) != "probe" {
				return fmt.Errorf("%s: Get after Put returned %q, %v", when, v, err)
			}
			if err := db.Delete([]byte(k)); err != nil {
				return fmt.Errorf("%s: Delete failed: %v", when, err)
			}
			if err := db.Sync(); err != nil {
				return fmt.Errorf("%s: Sync failed: %v", when, err)
			}
			return nil
		})
	}
	for r := 0; r < rounds; r++ {
		mode := core.Weighted(ch, "roundmode", []int{8, 1, 1}) // churn, delete everything, nothing
		vlen := core.PickInt(ch, "vlen", []int{1, 20, 40, 80, 200})
		nops := ch.Int("nops", 1, 150)
		if steady {
			mode = 3
			for i := 0; i < nkeys; i++ {
				step++
				v := mkValue(step, 80)
				k := key(i)
				if err := core.Safe(func() error { return db.Put([]byte(k), []byte(v)) }); err != nil {
					return fmt.Errorf("round %d: Put failed: %v", r, err)
				}
				model[k] = v
			}
			if err := reopen(fmt.Sprintf("round %d after restart (steady)", r)); err != nil {
				return err
			}
			restartSinceRemoving = true
		}
		switch mode {
		case 0:
			for j := 0; j < nops; j++ {
				k := key(ch.Int("k", 0, nkeys-1))
				if core.Pct(ch, "del", 25) {
					if err := core.Safe(func() error { return db.Delete([]byte(k)) }); err != nil {
						return fmt.Errorf("round %d: Delete failed: %v", r, err)
					}
					delete(model, k)
				} else {
					step++
					v := mkValue(step, vlen)
					if err := core.Safe(func() error { return db.Put([]byte(k), []byte(v)) }); err != nil {
						return fmt.Errorf("round %d: Put failed: %v", r, err)
					}
					model[k] = v
				}
			}
		case 1:
			for i := 0; i < nkeys; i++ {
				if err := core.Safe(func() error { return db.Delete([]byte(key(i))) }); err != nil {
					return fmt.Errorf("round %d: Delete failed: %v", r, err)
				}
				delete(model, key(i))
			}
			st.Count("rounds_delete_everything", 1)
		}
		before := map[string]bool{}
		for _, n := range env.Names() {
			if strings.HasSuffix(n, ".psg") {
				before[n] = true
			}
		}
		var cr pogreb.CompactionResult
		if !steady && core.Pct(ch, "skip_compaction", 25) {
			// no compaction in this round: garbage produced now has to be remembered (possibly
			// across a restart) until a later compaction
			if core.Pct(ch, "restart_nocompact", 50) {
				if err := reopen(fmt.Sprintf("round %d after restart without compaction", r)); err != nil {
					return err
				}
				restartSinceRemoving = true
			}
			continue
		}
		if err := core.Safe(func() error {
			var e error
			cr, e = db.Compact()
			return e
		}); err != nil {
			return fmt.Errorf("round %d: Compact failed: %v", r, err)
		}
		when := fmt.Sprintf("round %d after Compact %+v", r, cr)
		segsLeft := -1
		_ = core.Safe(func() error { segsLeft = len(db.VerifSegments()); return nil })
		after := map[string]bool{}
		for _, n := range env.Names() {
			if strings.HasSuffix(n, ".psg") {
				after[n] = true
			}
		}
		removed := 0
		for n := range before {
			if !after[n] {
				removed++
			}
		}
		if removed != cr.CompactedSegments {
			return fmt.Errorf("%s: %d segment files disappeared from the directory but %d segments were reported compacted", when, removed, cr.CompactedSegments)
		}
		if _, err := checkDirectory(env, db, when); err != nil {
			return err
		}
		// Backup comes first: straight after the compaction, before any write has moved the log on
		// (the segment that was current may be among the removed ones)
		if core.Pct(ch, "backup", 30) && (kind == "os" || kind == "mmap") {
			bdir := env.Dir + "-backup"
			if err := core.Safe(func() error { return db.Backup(bdir) }); err != nil {
				return fmt.Errorf("%s: Backup failed: %v", when, err)
			}
			_ = os.RemoveAll(bdir)
			st.Count("backups", 1)
			if cr.CompactedSegments > 0 {
				st.Count("backups_straight_after_a_removing_compaction", 1)
			}
		}
		if err := usable(when); err != nil {
			return err
		}
		if cr.CompactedSegments > 0 {
			removing++
			if restartSinceRemoving && lastRemovingRound >= 0 {
				restartsBetween++
			}
			restartSinceRemoving = false
			lastRemovingRound = r
			if segsLeft == 0 {
				st.Count("compactions_removing_every_segment", 1)
			}
		}
		if core.Pct(ch, "restart", 25) {
			if err := reopen(fmt.Sprintf("round %d after restart", r)); err != nil {
				return err
			}
			restartSinceRemoving = true
			if core.Pct(ch, "restart_twice", 20) {
				if err := reopen(fmt.Sprintf("round %d after a second restart without writes", r)); err != nil {
					return err
				}
			}
		}
		if r%8 == 7 || r == rounds-1 {
			if err := dbx.CheckAll(db, model, nil); err != nil {
				return fmt.Errorf("round %d: %v", r, err)
			}
		}
	}
	// final: compact, then the space bound
	if _, err := db.Compact(); err != nil {
		return fmt.Errorf("final Compact failed: %v", err)
	}
	segBytes, err := checkDirectory(env, db, "at the end")
	if err != nil {
		return err
	}
	var liveBytes int64
	for k, v := range model {
		liveBytes += int64(10 + len(k) + len(v))
	}
	nsegs := 0
	_ = core.Safe(func() error { nsegs = len(db.VerifSegments()); return nil })
	recordBytes := segBytes - int64(nsegs)*512
	bound := int64(64<<10) + 4*(liveBytes+int64(cfg.SegSize))
	if recordBytes > bound {
		return fmt.Errorf("after %d rounds with compaction the segments hold %d record bytes for %d bytes of live records (bound %d = 64 KiB + 4 x (live + one segment)); %d segments",
			rounds, recordBytes, liveBytes, bound, nsegs)
	}
	if err := usable("at the end"); err != nil {
		return err
	}
	if err := core.Safe(func() error { return db.Close() }); err != nil {
		db = nil
		return fmt.Errorf("final Close failed: %v", err)
	}
	db = nil
	if env.Kind == "os" || env.Kind == "mmap" {
		if fds, _ := fdCount(env.Dir); fds != 0 {
			return fmt.Errorf("%d descriptors still point into the directory after Close", fds)
		}
		if m := mapCount(env.Dir); m != 0 {
			return fmt.Errorf("%d memory mappings of directory files remain after Close", m)
		}
	}
	st.Eval(1)
	st.Count("rounds", int64(rounds))
	st.Count("compactions_removing_segments", int64(removing))
	st.Count("fs_"+kind, 1)
	if removing >= 5 && restartsBetween >= 1 {
		st.Nontrivial(core.FingerprintOf(ch))
		if st.WantSample() {
			st.Sample(map[string]interface{}{"config": cfg.String(), "fs": kind, "rounds": rounds, "compactions_removing_segments": removing,
				"restarts_between_them": restartsBetween, "final_record_bytes": recordBytes, "live_record_bytes": liveBytes})
		}
	}
	_ = filepath.Join
	return nil
}

func TestC15(t *testing.T) { core.Run(t, "C15", "C15", propC15) }
