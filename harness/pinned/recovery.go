package pogreb

import (
	"io"
	"path/filepath"

	"verif/harness/pinned/fs"
)

const (
	recoveryBackupExt = ".bac"
)

func backupNonsegmentFiles(fsys fs.FileSystem) error {
	logger.Println("moving non-segment files...")

	files, err := fsys.ReadDir(".")
	if err != nil {
		return err
	}

	for _, file := range files {
		name := file.Name()
		ext := filepath.Ext(name)
		if ext == segmentExt || name == lockName {
			continue
		}
		dst := name + recoveryBackupExt
		if err := fsys.Rename(name, dst); err != nil {
			return err
		}
		logger.Printf("moved %s to %s", name, dst)
	}

	return nil
}

func removeRecoveryBackupFiles(fsys fs.FileSystem) error {
	logger.Println("removing recovery backup files...")

	files, err := fsys.ReadDir(".")
	if err != nil {
		return err
	}

	for _, file := range files {
		name := file.Name()
		ext := filepath.Ext(name)
		if ext != recoveryBackupExt {
			continue
		}
		if err := fsys.Remove(name); err != nil {
			return err
		}
		logger.Printf("removed %s", name)
	}

	return nil
}

// recoveryIterator iterates over records of all datalog segments in insertion order.
// Corrupted segments are truncated to the last valid record.
type recoveryIterator struct {
	segments []*segment
	segit    *segmentIterator
}

func newRecoveryIterator(segments []*segment) *recoveryIterator {
	return &recoveryIterator{
		segments: segments,
	}
}

func (it *recoveryIterator) next() (record, error) {
	for {
		if it.segit == nil {
			if len(it.segments) == 0 {
				return record{}, ErrIterationDone
			}
			var err error
			it.segit, err = newSegmentIterator(it.segments[0])
			if err != nil {
				return record{}, err
			}
			it.segments = it.segments[1:]
		}
		rec, err := it.segit.next()
		if err == io.EOF || err == io.ErrUnexpectedEOF || err == errCorrupted {
			// Truncate file to the last valid offset.
			if err := it.segit.f.Truncate(int64(it.segit.offset)); err != nil {
				return record{}, err
			}
			fi, fierr := it.segit.f.Stat()
			if fierr != nil {
				return record{}, fierr
			}
			logger.Printf("truncated segment %s to offset %d", fi.Name(), it.segit.offset)
			err = ErrIterationDone
		}
		if err == ErrIterationDone {
			it.segit = nil
			continue
		}
		if err != nil {
			return record{}, err
		}
		return rec, nil
	}
}

func (db *DB) recover() error {
	logger.Println("started recovery")
	logger.Println("rebuilding index...")

	segments := db.datalog.segmentsBySequenceID()
	it := newRecoveryIterator(segments)
	for {
		rec, err := it.next()
		if err == ErrIterationDone {
			break
		}
		if err != nil {
			return err
		}

		h := db.hash(rec.key)
		meta := db.datalog.segments[rec.segmentID].meta
		if rec.rtype == recordTypePut {
			sl := slot{
				hash:      h,
				segmentID: rec.segmentID,
				keySize:   uint16(len(rec.key)),
				valueSize: uint32(len(rec.value)),
				offset:    rec.offset,
			}
			if err := db.put(sl, rec.key); err != nil {
				return err
			}
			meta.PutRecords++
		} else {
			if err := db.del(h, rec.key, false); err != nil {
				return err
			}
			meta.DeleteRecords++
			meta.DeletedBytes += uint32(len(rec.data))
		}
	}

	// Mark all segments except the newest as full.
	for i := 0; i < len(segments)-1; i++ {
		segments[i].meta.Full = true
	}

	if err := removeRecoveryBackupFiles(db.opts.FileSystem); err != nil {
		logger.Printf("error removing recovery backups files: %v", err)
	}

	logger.Println("successfully recovered database")

	return nil
}
