package checks

import (
	"testing"

	"verif/harness/core"
	"verif/harness/dbx"
	"verif/harness/faultfs"
)

// C05, second job: what compaction knows about a segment has travelled through clean restarts.
//
// Which segments Compact picks - and whether it may drop a delete record - is decided from
// per-segment bookkeeping (garbage bytes, number of delete records, sealed or not) that every
// session updates in memory, Close persists and the next Open reloads. The first job builds its
// shapes mostly inside one session. Here a database is built up by a chain of short sessions of
// ONE kind of write each (fresh keys / deletes of keys that live in an older segment / overwrites
// of keys of the newest segment / overwrites of keys of the oldest segment / nothing), each ended
// by a drawn clean restart, kill + recovery, or nothing; then Compact (with inline writers), a
// recovery (a dropped delete record or a lost copy shows only then), optionally more of the same.
// Oracle as in the first job: reference map after every step, and every process-crash point
// inside the Compact calls of a drawn share of the histories.
func propC05Sessions(ch core.Chooser, st *core.Stats) error {
	_, ukeys := drawUniverse(ch)
	cfg := dbx.DrawConfig(ch, []int{600, 1024, 2048})
	cfg.Frag = []float32{0.02, 0.1, 0.3, 0.5}[ch.Int("frag5", 0, 3)]
	cfg.MinSeg = 520
	cfg.SyncWrites = core.Pct(ch, "syncwrites", 10)
	s := newFsess(ch, st, nil, cfg, ukeys, map[string]string{})
	s.inlineWeight = []int{5, 4, 1, 1, 3}
	s.inlineMax = ch.Int("inline_max", 0, 2)
	s.valueLens = []int{0, 1, 5, 20, 60, 60, 120, 300}
	ch.Note("config: %s universe=%d keys", cfg, len(ukeys))
	if err := s.open(); err != nil {
		return err
	}
	off := ch.Int("rot", 0, len(ukeys)-1)
	rot := append(append([]string{}, ukeys[off:]...), ukeys[:off]...)
	nv := ch.Int("victims", 1, 3)
	vs := append([]string{}, rot[:nv]...)
	na := (len(rot) - nv) / 2
	aKeys, bKeys := rot[nv:nv+na], rot[nv+na:]
	// oldest segment: the victims, then filler keys written once, until the log rolls over
	for _, k := range vs {
		if err := s.put(k, core.PickInt(ch, "victim_vlen", []int{1, 20, 60, 120})); err != nil {
			return err
		}
	}
	if err := s.fillUntilRollover(aKeys, []int{60, 120, 300}, 3*len(aKeys)); err != nil {
		return err
	}
	oldKeys := append(append([]string{}, vs...), aKeys...)
	var newest []string // keys put since the log last rolled over (they live in the newest segment)
	segs := s.numSegments()
	track := func(k string) {
		if n := s.numSegments(); n != segs {
			segs, newest = n, nil
		}
		newest = append(newest, k)
	}
	cleanRestarts, kinds := 0, map[int]bool{}
	sessions := func(n int) error {
		for i := 0; i < n; i++ {
			kind := core.Weighted(ch, "session_kind", []int{3, 3, 3, 1, 1})
			kinds[kind] = true
			ch.Note("-- session of kind %d", kind)
			switch kind {
			case 0: // fresh (or other) keys into the newest segment
				for j, m := 0, ch.Int("fresh_n", 1, 5); j < m; j++ {
					k := bKeys[ch.Int("fresh_key", 0, len(bKeys)-1)]
					if err := s.put(k, core.PickInt(ch, "fresh_vlen", []int{20, 60, 120, 300})); err != nil {
						return err
					}
					track(k)
				}
			case 1: // nothing but deletes of keys that live in the oldest segment
				m := ch.Int("del_n", 1, len(vs))
				for j := 0; j < m; j++ {
					if err := s.del(vs[j]); err != nil {
						return err
					}
				}
			case 2: // overwrites of keys of the newest segment (all of them in 60 %)
				m := ch.Int("touch_n", 1, 3)
				if core.Pct(ch, "touch_all", 60) {
					m = len(newest)
				}
				keys := append([]string{}, newest...)
				for j := 0; j < m && j < len(keys); j++ {
					if err := s.put(keys[j], core.PickInt(ch, "touch_vlen", []int{1, 5, 20, 60})); err != nil {
						return err
					}
					track(keys[j])
				}
			case 3: // overwrites of keys of the oldest segment
				for j, m := 0, ch.Int("old_n", 1, 4); j < m; j++ {
					k := oldKeys[ch.Int("old_key", 0, len(oldKeys)-1)]
					if err := s.put(k, core.PickInt(ch, "old_vlen", []int{1, 20, 120})); err != nil {
						return err
					}
					track(k)
				}
			}
			switch core.Weighted(ch, "session_end", []int{14, 3, 3}) {
			case 0:
				if err := s.reopen(); err != nil {
					return err
				}
				cleanRestarts++
			case 1:
				if err := s.killAndRecover(); err != nil {
					return err
				}
			}
		}
		return nil
	}
	firstCompact := -1
	for round, rounds := 0, ch.Int("rounds", 1, 2); round < rounds; round++ {
		if err := sessions(ch.Int("sessions", 2, 5)); err != nil {
			return err
		}
		if firstCompact < 0 {
			firstCompact = s.fs.LogLen()
		}
		if err := s.compact(); err != nil {
			return err
		}
		if err := s.readback("after Compact"); err != nil {
			return err
		}
		newest, segs = nil, s.numSegments()
		if core.Pct(ch, "restart_after_compact", 30) {
			if err := s.reopen(); err != nil {
				return err
			}
		}
		// a dropped delete record or a lost copy only shows after a recovery
		if err := s.killAndRecover(); err != nil {
			return err
		}
	}
	st.Count("session_histories", 1)
	st.Count("session_compacted_segments", int64(s.compactedSegs))
	st.Count("session_clean_restarts", int64(cleanRestarts))
	nontrivial := s.compactedSegs > 0 && cleanRestarts > 0 && (kinds[1] || kinds[2])
	if nontrivial {
		st.Count("session_histories_nontrivial", 1)
		if kinds[1] && kinds[2] {
			st.Count("session_histories_with_delete_only_and_overwrite_only_sessions", 1)
		}
		if st.WantSample() {
			st.Sample(map[string]interface{}{"history": core.NotesOf(ch, 70), "compacted_segments": s.compactedSegs, "clean_restarts": cleanRestarts})
		}
	}
	s.trivialHistory = !nontrivial
	if !core.Pct(ch, "enumerate", 25) {
		st.Eval(1)
		if nontrivial {
			st.NontrivialSub(core.FingerprintOf(ch), 0)
		}
		return nil
	}
	return enumerateCrashPoints(ch, st, s, faultfs.NewState(), 0, func(p int, w *logWalker) bool {
		return p >= firstCompact && w.depth["C"] > 0
	}, "C05")
}

func TestC05Sessions(t *testing.T) { core.Run(t, "C05", "C05sessions", propC05Sessions) }
