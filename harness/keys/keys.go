// Package keys constructs keys with chosen MurmurHash3-x86-32 hashes (see DESIGN.md appendix A)
// and the engineered key universes used by the checks.
package keys

import (
	"encoding/binary"
	"fmt"
	"math/bits"

	"github.com/akrylysov/pogreb"
)

const (
	c1 uint32 = 0xcc9e2d51
	c2 uint32 = 0x1b873593
)

func inv32(a uint32) uint32 {
	x := a
	for i := 0; i < 5; i++ {
		x *= 2 - a*x
	}
	return x
}

func fmixInv(h uint32) uint32 {
	h ^= h >> 16
	h *= inv32(0xc2b2ae35)
	h ^= h>>13 ^ h>>26
	h *= inv32(0x85ebca6b)
	h ^= h >> 16
	return h
}

// WithHash returns prefix||X (prefix is padded with zero bytes to a multiple of 4) whose hash
// under seed equals target. The result is checked against pogreb's own hash function: a
// mismatch means the hash function changed, which is a generator health failure (panic with
// a recognisable message), never a verdict.
func WithHash(prefix []byte, seed, target uint32) []byte {
	p := append([]byte{}, prefix...)
	for len(p)%4 != 0 {
		p = append(p, 0)
	}
	h := seed
	for i := 0; i+4 <= len(p); i += 4 {
		k := binary.LittleEndian.Uint32(p[i:])
		k *= c1
		k = bits.RotateLeft32(k, 15)
		k *= c2
		h ^= k
		h = bits.RotateLeft32(h, 13)
		h = h*5 + 0xe6546b64
	}
	n := uint32(len(p) + 4)
	u := fmixInv(target) ^ n
	w := (u - 0xe6546b64) * inv32(5)
	r := bits.RotateLeft32(w, -13)
	k := r ^ h
	x := bits.RotateLeft32(k*inv32(c2), -15) * inv32(c1)
	out := append(p, 0, 0, 0, 0)
	binary.LittleEndian.PutUint32(out[len(p):], x)
	if pogreb.VerifHash(out, seed) != target {
		panic("HARNESS-HEALTH: murmur3 inverse does not match pogreb's hash function")
	}
	return out
}

// Universe is an engineered set of keys.
type Universe struct {
	Seed  uint32
	Keys  [][]byte
	Class []string // class name of each key
}

func (u *Universe) add(class string, k []byte) {
	u.Keys = append(u.Keys, k)
	u.Class = append(u.Class, class)
}

// Spec says how many keys of each class a universe holds.
type Spec struct {
	Identical    int // number of classes of 3 keys with identical 32-bit hash
	LowBits16    int // keys sharing the low 16 hash bits (one chain until level 16)
	LowBits2     int // keys sharing the low 2 bits
	SplitBit     int // pairs of keys that differ exactly in one low bit (bit index drawn from variant)
	Plain        int // ordinary keys of varied length
	Variant      uint32
}

// Build constructs the universe for a hash seed.
func Build(seed uint32, sp Spec) *Universe {
	u := &Universe{Seed: seed}
	v := sp.Variant
	for c := 0; c < sp.Identical; c++ {
		target := 0x1000*uint32(c+1) + v*0x01010101
		for j := 0; j < 3; j++ {
			u.add(fmt.Sprintf("ident%d", c), WithHash([]byte{byte(c), byte(j), byte(v), 1}, seed, target))
		}
	}
	low16 := uint32(7+v) & 0xffff
	for j := 0; j < sp.LowBits16; j++ {
		u.add("low16", WithHash(nil, seed, uint32(j+1)<<16|low16))
	}
	low2 := (1 + v) & 3
	for j := 0; j < sp.LowBits2; j++ {
		u.add("low2", WithHash([]byte{2, byte(v), 0, 0}, seed, uint32(j+1)<<2|low2))
	}
	for j := 0; j < sp.SplitBit; j++ {
		bit := uint32(j % 6)
		base := uint32(j)*0x9E3779B1 + v
		base &^= 1 << bit
		u.add("splitbit", WithHash([]byte{3, 0, 0, 0}, seed, base))
		u.add("splitbit", WithHash([]byte{3, 1, 0, 0}, seed, base|1<<bit))
	}
	plainLens := []int{0, 1, 3, 4, 5, 7, 8, 13, 57, 300}
	for j := 0; j < sp.Plain; j++ {
		l := plainLens[j%len(plainLens)]
		k := make([]byte, l)
		for i := range k {
			k[i] = byte('a' + (j+i*7+int(v))%26)
		}
		if l >= 2 {
			k[0], k[1] = byte(j), byte(j>>8)
		}
		if j >= len(plainLens) && l < 2 {
			// only one empty key and few 1-byte keys exist; make the rest distinct
			k = []byte(fmt.Sprintf("p%d-%d", v, j))
		}
		u.add("plain", k)
	}
	// de-duplicate (keep first)
	seen := map[string]bool{}
	var ks [][]byte
	var cs []string
	for i, k := range u.Keys {
		if seen[string(k)] {
			continue
		}
		seen[string(k)] = true
		ks = append(ks, k)
		cs = append(cs, u.Class[i])
	}
	u.Keys, u.Class = ks, cs
	return u
}

// Small is a cheap default universe used by the fault checks.
func Small(seed uint32, variant uint32) *Universe {
	return Build(seed, Spec{Identical: 1, LowBits16: 6, LowBits2: 4, Plain: 8, Variant: variant})
}
