#!/usr/bin/env python3
"""Rewrites the generated table in DESIGN.md (between the NUMBERS markers) from evidence/*.json."""
import glob, json, os, re
ROOT = os.path.dirname(os.path.dirname(os.path.abspath(__file__)))
rows = []
for f in sorted(glob.glob(os.path.join(ROOT, "evidence", "*.json"))):
    d = json.load(open(f))
    c = d["coverage"]
    jobs = ", ".join("%s %d" % (k, v["evaluations"]) for k, v in sorted(c.get("per_check", {}).items()))
    rows.append("| %s | %s | %d | %d | %d | %.0f s | %s |" % (d["property_id"], d["tier"], d["seed"], c["evaluations"], c["distinct_nontrivial"], d["wall_s"], jobs))
table = "\n".join(["| id | tier | seed | evaluations | distinct non-trivial | wall | per job |", "|----|------|------|-------------|----------------------|------|---------|"] + rows)
p = os.path.join(ROOT, "DESIGN.md")
s = open(p).read()
s = re.sub(r"(<!-- NUMBERS:BEGIN -->\n).*?(\n<!-- NUMBERS:END -->)", lambda m: m.group(1) + table + m.group(2), s, flags=re.S)
open(p, "w").write(s)
print(table)
