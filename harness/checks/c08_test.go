package checks

import (
	"encoding/binary"
	"fmt"
	"os"
	"path/filepath"
	"runtime"
	"sort"
	"strings"
	"testing"

	"github.com/akrylysov/pogreb"

	"verif/harness/core"
	"verif/harness/dbx"
	"verif/harness/faultfs"
	"verif/harness/format"
)

// tailBase builds a small database through the API and returns its (unclean) image:
// the state of the files with the lock file present.
type tailBase struct {
	cfg   dbx.Config
	ukeys []string
	img   *faultfs.State
	segs  []string // segment paths ordered by sequence id
}

var tailValueLens = []int{0, 1, 10, 100, 490, 500, 506, 1000, 3000, 4070, 4090, 4096, 5000, 12000}

func buildTailBase(ch core.Chooser, st *core.Stats) (*tailBase, error) {
	_, ukeys := drawUniverse(ch)
	cfg := dbx.Config{SegSize: uint32(core.PickInt(ch, "segsize", []int{2048, 16384, 1 << 20})), MinSeg: 520, Frag: 0.02}
	s := newFsess(ch, st, nil, cfg, ukeys, map[string]string{})
	s.valueLens = tailValueLens
	ch.Note("config: %s universe=%d keys", cfg, len(ukeys))
	if err := s.open(); err != nil {
		return nil, err
	}
	if err := s.runOps(ch.Int("nops", 1, core.Scale(30, 60)), []int{8, 3, 1, 0, 1, 0, 0}); err != nil {
		return nil, err
	}
	if s.numSegments() == 0 {
		// compaction emptied the log: there is no segment whose tail could be damaged
		if err := s.put(ukeys[0], 10); err != nil {
			return nil, err
		}
	}
	if core.Bool(ch, "cleanclose") {
		if err := s.closeDB(); err != nil {
			return nil, err
		}
	}
	img := s.fs.Snapshot()
	img.EnsureFile("db/lock")
	tb := &tailBase{cfg: cfg, ukeys: ukeys, img: img}
	for name := range img.Dir {
		if strings.HasSuffix(name, ".psg") {
			tb.segs = append(tb.segs, name)
		}
	}
	sort.Slice(tb.segs, func(i, j int) bool {
		_, a, _ := format.ParseSegmentName(strings.TrimPrefix(tb.segs[i], "db/"))
		_, b, _ := format.ParseSegmentName(strings.TrimPrefix(tb.segs[j], "db/"))
		return a < b
	})
	// the independent decoder must accept every byte pogreb wrote
	for _, name := range tb.segs {
		data := img.Inodes[img.Dir[name]]
		if !format.HeaderOK(data) {
			return nil, fmt.Errorf("segment %s written by pogreb has no valid documented header", name)
		}
		if _, end := format.Decode(data); end != len(data) {
			return nil, fmt.Errorf("independent decoder of the documented format rejects bytes written by pogreb: segment %s valid prefix %d of %d bytes", name, end, len(data))
		}
	}
	return tb, nil
}

func dirFiles(st *faultfs.State, dir string) map[string][]byte {
	out := map[string][]byte{}
	for name, data := range st.Files() {
		if strings.HasPrefix(name, dir+"/") {
			out[strings.TrimPrefix(name, dir+"/")] = data
		}
	}
	return out
}

func craftedHeader(ks int, vs uint32, del bool) []byte {
	h := make([]byte, 6)
	binary.LittleEndian.PutUint16(h[0:2], uint16(ks))
	if del {
		vs |= 1 << 31
	}
	binary.LittleEndian.PutUint32(h[2:6], vs)
	return h
}

func fillBytes(ch core.Chooser, n int) []byte {
	b := make([]byte, n)
	mode := ch.Int("fill", 0, 2)
	x := uint32(ch.Int("fillseed", 0, 1<<20))
	for i := range b {
		switch mode {
		case 0:
			b[i] = 0
		case 1:
			b[i] = 0xff
		default:
			x = x*1664525 + 1013904223
			b[i] = byte(x >> 24)
		}
	}
	return b
}

// mutateTail applies a drawn tail mutation to one segment. Returns the kind and boundary classes.
func mutateTail(ch core.Chooser, tb *tailBase, target string) (string, []string) {
	st := tb.img
	ino := st.Dir[target]
	data := append([]byte(nil), st.Inodes[ino]...)
	recs, _ := format.Decode(data)
	var classes []string
	kinds := []string{"truncate", "zeros", "garbage", "header", "flip", "valid_after_damaged", "valid_new_key", "torn_prefix_of_valid"}
	kind := kinds[ch.Int("mutation", 0, len(kinds)-1)]
	switch kind {
	case "truncate":
		if len(data) > 512 {
			cut := ch.Int("cut", 512, len(data)-1)
			// classify the cut relative to the record it falls in
			for _, r := range recs {
				if cut >= r.Off && cut < r.Off+r.Len {
					switch within := cut - r.Off; {
					case within == 0:
						classes = append(classes, "cut_at_record_boundary")
					case within < 6:
						classes = append(classes, "cut_inside_length_fields")
					case within < r.Len-4:
						classes = append(classes, "cut_inside_body")
					default:
						classes = append(classes, "cut_inside_crc")
					}
				}
			}
			data = data[:cut]
		}
	case "zeros":
		data = append(data, make([]byte, core.PickInt(ch, "nz", []int{1, 5, 6, 9, 10, 511, 512, 600, 4096, 5000}))...)
	case "garbage":
		data = append(data, fillBytes(ch, core.PickInt(ch, "ng", []int{1, 5, 6, 7, 10, 40, 600, 4096, 9000}))...)
	case "header":
		ks := core.PickInt(ch, "ks", []int{0, 1, 2, 100, 5000, 65535})
		vs := uint32(core.PickInt(ch, "vs", []int{0, 1, 7, 100, 4096, 100000, 1 << 24, 1<<31 - 1}))
		h := craftedHeader(ks, vs, core.Bool(ch, "delbit"))
		body := fillBytes(ch, core.PickInt(ch, "bodylen", []int{0, 1, 3, 4, 100, 3000, 4090, 4100}))
		data = append(append(data, h...), body...)
		if uint64(ks)+uint64(vs) > uint64(len(body))+(1<<20) {
			classes = append(classes, "header_claims_1MiB_more_than_present")
		}
	case "flip":
		if len(recs) > 0 {
			r := recs[ch.Int("rec", 0, len(recs)-1)]
			if r.Len > 6 {
				pos := r.Off + 6 + ch.Int("pos", 0, r.Len-7)
				data[pos] ^= 1 << uint(ch.Int("bit", 0, 7))
				switch {
				case pos >= r.Off+r.Len-4:
					classes = append(classes, "flip_in_crc")
				case pos < r.Off+6+len(r.Key):
					classes = append(classes, "flip_in_key")
				default:
					classes = append(classes, "flip_in_value")
				}
			} else {
				kind = "flip_skipped"
			}
		} else {
			kind = "flip_skipped"
		}
	case "valid_after_damaged":
		bad := format.Encode([]byte("zz"), []byte("bad"), false)
		bad[len(bad)-1-ch.Int("badpos", 0, len(bad)-7)] ^= 0x40
		data = append(append(data, bad...), format.Encode([]byte("after"), []byte("x"), false)...)
	case "valid_new_key":
		v := fillBytes(ch, core.PickInt(ch, "newvlen", []int{0, 3, 500, 4090, 9000}))
		if core.Pct(ch, "newdel", 20) && len(tb.ukeys) > 0 {
			data = append(data, format.Encode([]byte(tb.ukeys[ch.Int("delkey", 0, len(tb.ukeys)-1)]), nil, true)...)
		} else {
			data = append(data, format.Encode([]byte("brand-new-key"), v, false)...)
		}
	case "torn_prefix_of_valid":
		rec := format.Encode([]byte("torn-key"), fillBytes(ch, core.PickInt(ch, "tornvlen", []int{0, 10, 600, 4090, 5000})), false)
		data = append(data, rec[:ch.Int("tornlen", 1, len(rec)-1)]...)
	}
	if (len(data)-512)/4096 != (len(st.Inodes[ino])-512)/4096 {
		classes = append(classes, "tail_crosses_4096_read_buffer")
	}
	st.Inodes[ino] = data
	return kind, classes
}

// recoverAndCompare runs the real recovery on the image and compares with the independent decoder.
func recoverAndCompare(tb *tailBase, desc string) (*imageResult, error) {
	files := dirFiles(tb.img, "db")
	want, wantEnd, err := format.Replay(files)
	if err != nil {
		return nil, &core.Inconclusive{Msg: err.Error()}
	}
	dbx.ResetLog()
	res, err := checkImage(tb.img.Clone(), tb.cfg, tb.ukeys, []map[string]string{want}, desc)
	if err != nil {
		return nil, err
	}
	if !dbx.RecoveryRan() {
		return nil, fmt.Errorf("%s: Open of a directory with a lock file did not run recovery", desc)
	}
	after := res.FS.Snapshot()
	for name, end := range wantEnd {
		if l := len(after.Inodes[after.Dir["db/"+name]]); l != end {
			return nil, fmt.Errorf("%s: segment %s is %d bytes long after recovery, the valid record prefix ends at %d", desc, name, l, end)
		}
	}
	// a clean restart afterwards yields the same
	if err := core.Safe(func() error { return res.DB.Close() }); err != nil {
		return nil, fmt.Errorf("%s: Close after recovery failed: %v", desc, err)
	}
	db2, err := dbx.Open("db", tb.cfg, res.FS)
	if err != nil {
		return nil, fmt.Errorf("%s: reopen after recovery failed: %v", desc, err)
	}
	got2, err := dbx.Dump(db2)
	if err != nil {
		return nil, fmt.Errorf("%s: reopen after recovery: %v", desc, err)
	}
	if !dbx.Equal(got2, want) {
		return nil, fmt.Errorf("%s: contents changed across a clean restart after recovery: %s", desc, dbx.Diff(got2, want))
	}
	return res, nil
}

// materialize writes the files of the image's database directory into a fresh directory of a
// real file system implementation ("os", "mmap" or "mem").
func materialize(img *faultfs.State, kind string) (*Env, error) {
	env := NewEnv(kind)
	if err := env.FS.MkdirAll(env.Dir, 0755); err != nil {
		return nil, &core.Inconclusive{Msg: "materialize: " + err.Error()}
	}
	for name, data := range dirFiles(img, "db") {
		f, err := env.FS.OpenFile(filepath.Join(env.Dir, name), os.O_CREATE|os.O_RDWR|os.O_TRUNC, 0640)
		if err != nil {
			env.Cleanup()
			return nil, &core.Inconclusive{Msg: "materialize: " + err.Error()}
		}
		if len(data) > 0 {
			if _, err := f.WriteAt(data, 0); err != nil {
				_ = f.Close()
				env.Cleanup()
				return nil, &core.Inconclusive{Msg: "materialize: " + err.Error()}
			}
		}
		if err := f.Close(); err != nil {
			env.Cleanup()
			return nil, &core.Inconclusive{Msg: "materialize: " + err.Error()}
		}
	}
	return env, nil
}

// recoverOnRealFS runs the real recovery on a copy of the image that lives on a real file system
// implementation and compares with the independent decoder, as recoverAndCompare does on the
// recording file system. It returns the bytes allocated by the recovering Open.
func recoverOnRealFS(tb *tailBase, img *faultfs.State, kind, desc string) (uint64, error) {
	desc = desc + " [on " + kind + "]"
	want, wantEnd, err := format.Replay(dirFiles(img, "db"))
	if err != nil {
		return 0, &core.Inconclusive{Msg: err.Error()}
	}
	env, err := materialize(img, kind)
	if err != nil {
		return 0, err
	}
	defer env.Cleanup()
	dbx.ResetLog()
	var db *pogreb.DB
	alloc, err := allocDuring(func() error {
		var e error
		db, e = dbx.Open(env.Dir, tb.cfg, env.FS)
		return e
	})
	if err != nil {
		return 0, fmt.Errorf("%s: Open failed: %v", desc, err)
	}
	if !dbx.RecoveryRan() {
		_ = core.Safe(func() error { return db.Close() })
		return 0, fmt.Errorf("%s: Open of a directory with a lock file did not run recovery", desc)
	}
	got, err := dbx.Dump(db)
	if err == nil && !dbx.Equal(got, want) {
		err = fmt.Errorf("recovered contents differ from the replay of the valid record prefixes: %s", dbx.Diff(got, want))
	}
	if err == nil {
		_, err = dbx.CheckIndex(db)
	}
	if cerr := core.Safe(func() error { return db.Close() }); err == nil && cerr != nil {
		err = fmt.Errorf("Close after recovery failed: %v", cerr)
	}
	if err != nil {
		return 0, fmt.Errorf("%s: %v", desc, err)
	}
	files, ferr := env.Files()
	if ferr != nil {
		return 0, &core.Inconclusive{Msg: ferr.Error()}
	}
	for name, end := range wantEnd {
		if l := len(files[name]); l != end {
			return 0, fmt.Errorf("%s: segment %s is %d bytes long after recovery, the valid record prefix ends at %d", desc, name, l, end)
		}
	}
	db2, err := dbx.Open(env.Dir, tb.cfg, env.FS)
	if err != nil {
		return 0, fmt.Errorf("%s: reopen after recovery failed: %v", desc, err)
	}
	defer func() { _ = core.Safe(func() error { return db2.Close() }) }()
	got2, err := dbx.Dump(db2)
	if err != nil {
		return 0, fmt.Errorf("%s: reopen after recovery: %v", desc, err)
	}
	if !dbx.Equal(got2, want) {
		return 0, fmt.Errorf("%s: contents changed across a clean restart after recovery: %s", desc, dbx.Diff(got2, want))
	}
	return alloc, nil
}

var realKinds = []string{"os", "mmap", "mem"}

// C08: recovery replays exactly the valid record prefix of each segment.
func propC08(ch core.Chooser, st *core.Stats) error {
	tb, err := buildTailBase(ch, st)
	if err != nil {
		return err
	}
	target := tb.segs[ch.Int("segment", 0, len(tb.segs)-1)]
	validBefore, _ := format.Decode(tb.img.Inodes[tb.img.Dir[target]])
	kind, classes := mutateTail(ch, tb, target)
	newData := tb.img.Inodes[tb.img.Dir[target]]
	_, end := format.Decode(newData)
	desc := fmt.Sprintf("tail mutation %q of segment %s (%d of %d segments; %d bytes, valid prefix ends at %d)", kind, target, 1, len(tb.segs), len(newData), end)
	ch.Note("%s", desc)
	if _, err := recoverAndCompare(tb, desc); err != nil {
		return err
	}
	// the same image recovered through a real file system implementation
	if core.Pct(ch, "also_on_real_fs", 35) {
		rk := realKinds[ch.Int("real_fs", 0, len(realKinds)-1)]
		if _, err := recoverOnRealFS(tb, tb.img, rk, desc); err != nil {
			return err
		}
		st.Count("also_recovered_on_"+rk, 1)
	}
	st.Eval(1)
	st.Count("mutation_"+kind, 1)
	for _, c := range classes {
		st.Count("class_"+c, 1)
	}
	if target != tb.segs[len(tb.segs)-1] {
		st.Count("damaged_segment_is_not_the_newest", 1)
	}
	if end < len(newData) && len(validBefore) > 0 {
		st.Nontrivial(core.FingerprintOf(ch))
		if st.WantSample() {
			st.Sample(map[string]interface{}{"history": core.NotesOf(ch, 40), "mutation": desc, "classes": classes})
		}
	}
	return nil
}

func TestC08(t *testing.T) { core.Run(t, "C08", "C08", propC08) }

func allocDuring(f func() error) (uint64, error) {
	var m0, m1 runtime.MemStats
	runtime.ReadMemStats(&m0)
	err := f()
	runtime.ReadMemStats(&m1)
	return m1.TotalAlloc - m0.TotalAlloc, err
}

var c19vs = []uint32{0, 1, 255, 256, 257, 65535, 65536, 1<<20 - 1, 1 << 20, 1<<24 + 1, 1<<28 - 1, 1 << 28, 1 << 29, 1<<30 + 1, 1<<31 - 1}

// C19: recovery cost is bounded by the data on disk, not by damaged length fields.
func propC19(ch core.Chooser, st *core.Stats) error {
	tb, err := buildTailBase(ch, st)
	if err != nil {
		return err
	}
	target := tb.segs[ch.Int("segment", 0, len(tb.segs)-1)]
	ino := tb.img.Dir[target]
	// control: the recovering Open on the same image without the tail
	control := tb.img.Clone()
	open := func(img *faultfs.State) func() error {
		return func() error {
			_, err := dbx.Open("db", tb.cfg, faultfs.Adopt(img))
			return err
		}
	}
	// warm up (first Open in a process allocates lazily initialised tables)
	if _, err := allocDuring(open(control.Clone())); err != nil {
		return fmt.Errorf("control Open failed: %v", err)
	}
	ctrlAlloc, err := allocDuring(open(control.Clone()))
	if err != nil {
		return fmt.Errorf("control Open failed: %v", err)
	}
	ks := ch.Int("ks", 0, 65535)
	vs := c19vs[ch.Int("vs", 0, len(c19vs)-1)]
	if core.Pct(ch, "vs_any", 30) {
		vs = uint32(ch.Int("vs_raw", 0, 1<<31-1))
	}
	del := core.Bool(ch, "delbit")
	follow := fillBytes(ch, ch.Int("follow", 0, 3000))
	tail := append(craftedHeader(ks, vs, del), follow...)
	tb.img.Inodes[ino] = append(append([]byte(nil), tb.img.Inodes[ino]...), tail...)
	desc := fmt.Sprintf("crafted header after the last record of %s: keySize=%d valueSize=%d delete=%v followed by %d bytes", target, ks, vs, del, len(follow))
	ch.Note("%s", desc)
	gotAlloc, err := allocDuring(open(tb.img.Clone()))
	if err != nil {
		return fmt.Errorf("%s: Open failed: %v", desc, err)
	}
	var segTotal int64
	for _, name := range tb.segs {
		segTotal += int64(len(tb.img.Inodes[tb.img.Dir[name]]))
	}
	bound := ctrlAlloc + 4*uint64(len(tail)) + 64<<10
	st.Eval(1)
	if gotAlloc > bound {
		return fmt.Errorf("%s: the recovering Open allocated %d bytes; the same Open without the tail allocates %d bytes (bound %d = control + 4 x %d tail bytes + 64 KiB); segment files hold %d bytes in total",
			desc, gotAlloc, ctrlAlloc, bound, len(tail), segTotal)
	}
	// and the tail is discarded exactly as C08 demands
	if _, err := recoverAndCompare(tb, desc); err != nil {
		return err
	}
	// the same pair of images (without and with the tail) through a real file system
	// implementation: the bound is the same
	if core.Pct(ch, "also_on_real_fs", 50) {
		rk := realKinds[ch.Int("real_fs", 0, len(realKinds)-1)]
		ctrlReal, err := recoverOnRealFS(tb, control, rk, "control image without the tail")
		if err != nil {
			return err
		}
		gotReal, err := recoverOnRealFS(tb, tb.img, rk, desc)
		if err != nil {
			return err
		}
		if realBound := ctrlReal + 4*uint64(len(tail)) + 64<<10; gotReal > realBound {
			return fmt.Errorf("%s [on %s]: the recovering Open allocated %d bytes; the same Open without the tail allocates %d bytes (bound %d = control + 4 x %d tail bytes + 64 KiB); segment files hold %d bytes in total",
				desc, rk, gotReal, ctrlReal, realBound, len(tail), segTotal)
		}
		st.Count("also_measured_on_"+rk, 1)
	}
	claimed := uint64(ks) + uint64(vs) + 10
	if claimed >= uint64(len(tail))+1<<20 {
		st.Count("claims_1MiB_more_than_present", 1)
		st.Nontrivial(core.FingerprintOf(ch))
		if st.WantSample() {
			st.Sample(map[string]interface{}{"tail": desc, "alloc_with_tail": gotAlloc, "alloc_control": ctrlAlloc, "bound": bound})
		}
	}
	if gotAlloc > ctrlAlloc {
		if r := int64(gotAlloc - ctrlAlloc); r > 0 {
			st.Count("sum_extra_alloc_bytes", r)
		}
	}
	return nil
}

func TestC19(t *testing.T) { core.Run(t, "C19", "C19", propC19) }
