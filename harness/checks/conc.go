package checks

import (
	"fmt"
	"sort"
	"strings"
	"sync"
	"sync/atomic"
	"time"

	"github.com/anishathalye/porcupine"

	"verif/harness/dbx"
)

// Shared machinery of the concurrency checks (C07, C10): a timestamped call/return history of
// all goroutines, the per-key register-with-delete specification handed to the linearizability
// checker (porcupine is used only as the oracle over generated histories), and sound bounds for
// Count results.

type cop struct {
	Client int
	Kind   string // "put", "del", "get", "geta", "has", "count"
	Key    string
	Val    string // value written (put)
	Out    string // value read
	Found  bool   // read result: key present
	N      int    // Count result
	Err    string
	Call   int64
	Ret    int64
}

func (o cop) String() string {
	var s string
	switch o.Kind {
	case "put":
		s = fmt.Sprintf("Put(%s, %s)", dbx.K(o.Key), dbx.V(o.Val))
	case "del":
		s = fmt.Sprintf("Delete(%s)", dbx.K(o.Key))
	case "get", "geta":
		if o.Found {
			s = fmt.Sprintf("%s(%s) -> %s", map[string]string{"get": "Get", "geta": "GetAppend"}[o.Kind], dbx.K(o.Key), dbx.V(o.Out))
		} else {
			s = fmt.Sprintf("%s(%s) -> nil", map[string]string{"get": "Get", "geta": "GetAppend"}[o.Kind], dbx.K(o.Key))
		}
	case "has":
		s = fmt.Sprintf("Has(%s) -> %v", dbx.K(o.Key), o.Found)
	case "count":
		s = fmt.Sprintf("Count() -> %d", o.N)
	}
	if o.Err != "" {
		s += " error: " + o.Err
	}
	return fmt.Sprintf("[%d..%d] g%d %s", o.Call, o.Ret, o.Client, s)
}

type chist struct {
	mu    sync.Mutex
	ops   []cop
	clock int64
}

func (h *chist) now() int64 { return atomic.AddInt64(&h.clock, 1) }

func (h *chist) add(o cop) {
	h.mu.Lock()
	h.ops = append(h.ops, o)
	h.mu.Unlock()
}

func (h *chist) snapshot() []cop {
	h.mu.Lock()
	defer h.mu.Unlock()
	return append([]cop(nil), h.ops...)
}

type regState struct {
	present bool
	v       string
}

type regIn struct {
	kind, key, val string
}

type regOut struct {
	found bool
	val   string
}

var registerModel = porcupine.Model{
	Partition: func(history []porcupine.Operation) [][]porcupine.Operation {
		by := map[string][]porcupine.Operation{}
		var keys []string
		for _, op := range history {
			k := op.Input.(regIn).key
			if _, ok := by[k]; !ok {
				keys = append(keys, k)
			}
			by[k] = append(by[k], op)
		}
		sort.Strings(keys)
		out := make([][]porcupine.Operation, 0, len(keys))
		for _, k := range keys {
			out = append(out, by[k])
		}
		return out
	},
	Init: func() interface{} { return regState{} },
	Step: func(state interface{}, input interface{}, output interface{}) (bool, interface{}) {
		s := state.(regState)
		in := input.(regIn)
		out := output.(regOut)
		switch in.kind {
		case "put":
			return true, regState{true, in.val}
		case "del":
			return true, regState{}
		case "get", "geta":
			if out.found != s.present {
				return false, s
			}
			return !s.present || out.val == s.v, s
		case "has":
			return out.found == s.present, s
		}
		return false, s
	},
	Equal: func(a, b interface{}) bool { return a.(regState) == b.(regState) },
}

// checkLinearizable validates the history (reads and writes of single keys) against the
// register specification. It returns "" if linearizable, a description of the offending key's
// history otherwise; unknown=true when the checker ran out of time (never a verdict).
func checkLinearizable(ops []cop, budget time.Duration) (bad string, unknown bool) {
	var hist []porcupine.Operation
	for _, o := range ops {
		if o.Kind == "count" {
			continue
		}
		hist = append(hist, porcupine.Operation{ClientId: o.Client, Input: regIn{o.Kind, o.Key, o.Val}, Call: o.Call,
			Output: regOut{o.Found, o.Out}, Return: o.Ret})
	}
	res := porcupine.CheckOperationsTimeout(registerModel, hist, budget)
	switch res {
	case porcupine.Ok:
		return "", false
	case porcupine.Unknown:
		return "", true
	}
	// find the offending key(s) for the report
	by := map[string][]cop{}
	for _, o := range ops {
		if o.Kind != "count" {
			by[o.Key] = append(by[o.Key], o)
		}
	}
	var keys []string
	for k := range by {
		keys = append(keys, k)
	}
	sort.Strings(keys)
	for _, k := range keys {
		var h1 []porcupine.Operation
		for _, o := range by[k] {
			h1 = append(h1, porcupine.Operation{ClientId: o.Client, Input: regIn{o.Kind, o.Key, o.Val}, Call: o.Call, Output: regOut{o.Found, o.Out}, Return: o.Ret})
		}
		if porcupine.CheckOperationsTimeout(registerModel, h1, budget) == porcupine.Illegal {
			sort.Slice(by[k], func(i, j int) bool { return by[k][i].Call < by[k][j].Call })
			var sb strings.Builder
			fmt.Fprintf(&sb, "the operations on key %s have no sequential order that respects real time:\n", dbx.K(k))
			lines := by[k]
			if len(lines) > 60 {
				lines = lines[len(lines)-60:]
				sb.WriteString("  ... (last 60 operations on the key)\n")
			}
			for _, o := range lines {
				sb.WriteString("  " + o.String() + "\n")
			}
			return sb.String(), false
		}
	}
	return "history is not linearizable (no single key isolates the problem)", false
}

// countBounds returns sound bounds for the result of a Count call with interval [call, ret]:
// lo = number of keys that are live at every instant of the interval under every admissible
// linearization; hi = number of keys that can be live at some instant of it.
func countBounds(ops []cop, call, ret int64) (lo, hi int) {
	type wr struct {
		put       bool
		call, ret int64
	}
	by := map[string][]wr{}
	for _, o := range ops {
		if o.Kind == "put" || o.Kind == "del" {
			by[o.Key] = append(by[o.Key], wr{o.Kind == "put", o.Call, o.Ret})
		}
	}
	for _, ws := range by {
		definitely, possibly := false, false
		for _, p := range ws {
			if !p.put {
				continue
			}
			// p can precede the count's instant iff it was called before the count returned
			if p.call <= ret {
				// possibly live unless some delete certainly follows p and certainly precedes the count
				killed := false
				for _, d := range ws {
					if !d.put && d.call > p.ret && d.ret < call {
						killed = true
						break
					}
				}
				if !killed {
					possibly = true
				}
			}
			// definitely live: p certainly precedes the count and no delete can fall between them
			if p.ret < call {
				threatened := false
				for _, d := range ws {
					if !d.put && d.ret >= p.call && d.call <= ret {
						threatened = true
						break
					}
				}
				if !threatened {
					definitely = true
				}
			}
		}
		if definitely {
			lo++
		}
		if possibly {
			hi++
		}
	}
	return
}

// overlapStats classifies a history: number of pairs of operations on the same key that overlap
// in time with at least one of them a write.
func overlapStats(ops []cop) (pairs int) {
	by := map[string][]cop{}
	for _, o := range ops {
		if o.Kind != "count" {
			by[o.Key] = append(by[o.Key], o)
		}
	}
	for _, l := range by {
		sort.Slice(l, func(i, j int) bool { return l[i].Call < l[j].Call })
		for i := range l {
			for j := i + 1; j < len(l) && l[j].Call <= l[i].Ret; j++ {
				if l[i].Kind == "put" || l[i].Kind == "del" || l[j].Kind == "put" || l[j].Kind == "del" {
					pairs++
				}
			}
		}
	}
	return
}
