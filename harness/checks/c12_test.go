package checks

import (
	"fmt"
	"os"
	"runtime"
	"strings"
	"sync"
	"sync/atomic"
	"testing"
	"time"

	"github.com/akrylysov/pogreb"

	"verif/harness/core"
	"verif/harness/dbx"
	"verif/harness/hookfs"
)

// C12: Backup is a consistent point-in-time copy.
func propC12(ch core.Chooser, st *core.Stats) error {
	_, ukeys := drawUniverse(ch)
	kind := drawEnvKind(ch, []string{"fault", "fault", "os", "mmap", "mem"})
	env := NewEnv(kind)
	defer env.Cleanup()
	hfs := hookfs.New(env.FS)
	cfg := dbx.Config{SegSize: uint32(core.PickInt(ch, "segsize", []int{600, 1024, 2048, 8192})), MinSeg: 520, Frag: 0.02}
	ch.Note("config: %s fs=%s", cfg, kind)
	db, err := dbx.Open(env.Dir, cfg, hfs)
	if err != nil {
		return err
	}
	defer func() { _ = core.Safe(func() error { return db.Close() }) }()
	model := map[string]string{}
	states := []map[string]string{{}}
	step := 0
	key := func() string {
		if core.Pct(ch, "hot", 50) {
			return ukeys[ch.Int("hotkey", 0, 3)]
		}
		return ukeys[ch.Int("key", 0, len(ukeys)-1)]
	}
	writer := func(prefix string) error {
		k := key()
		if core.Pct(ch, "isdel", 30) {
			ch.Note("%sdelete %s", prefix, dbx.K(k))
			if err := core.Safe(func() error { return db.Delete([]byte(k)) }); err != nil {
				return fmt.Errorf("Delete failed: %v", err)
			}
			delete(model, k)
		} else {
			step++
			v := mkValue(step, core.PickInt(ch, "vlen", []int{0, 5, 60, 300, 490, 900}))
			ch.Note("%sput %s len=%d", prefix, dbx.K(k), len(v))
			if err := core.Safe(func() error { return db.Put([]byte(k), []byte(v)) }); err != nil {
				return fmt.Errorf("Put failed: %v", err)
			}
			model[k] = v
		}
		states = append(states, dbx.Clone(model))
		return nil
	}
	// directed prefix (drawn): put the whole universe with small values, then delete a run of
	// keys back to back: with small segments this leaves sealed segments that hold nothing but
	// delete records whose put records live in older segments - a backup that drops or reorders
	// any of them resurrects keys
	burst := core.Pct(ch, "delete_burst", 35)
	if burst {
		ch.Note("-- directed prefix: delete burst")
		for _, k := range ukeys {
			step++
			v := mkValue(step, core.PickInt(ch, "burst_vlen", []int{1, 5, 20, 60}))
			if err := core.Safe(func() error { return db.Put([]byte(k), []byte(v)) }); err != nil {
				return fmt.Errorf("Put failed: %v", err)
			}
			model[k] = v
			states = append(states, dbx.Clone(model))
		}
		from := ch.Int("burst_from", 0, len(ukeys)-1)
		to := ch.Int("burst_to", from, len(ukeys)-1)
		ch.Note("put all %d keys, delete keys %d..%d", len(ukeys), from, to)
		for _, k := range ukeys[from : to+1] {
			if err := core.Safe(func() error { return db.Delete([]byte(k)) }); err != nil {
				return fmt.Errorf("Delete failed: %v", err)
			}
			delete(model, k)
			states = append(states, dbx.Clone(model))
		}
		st.Count("delete_burst_prefixes", 1)
	}
	maxPrefill := core.Scale(40, 120)
	if burst {
		maxPrefill = 8
	}
	for i, n := 0, ch.Int("prefill", 0, maxPrefill); i < n; i++ {
		if core.Pct(ch, "precompact", 4) {
			if err := core.Safe(func() error { _, e := db.Compact(); return e }); err != nil {
				return fmt.Errorf("Compact failed: %v", err)
			}
			continue
		}
		if err := writer(""); err != nil {
			return err
		}
	}
	namesBefore := env.Names()
	segsBefore := 0
	var curSizeBefore int64
	_ = core.Safe(func() error {
		sg := db.VerifSegments()
		segsBefore = len(sg)
		for _, s := range sg {
			if s.Current {
				curSizeBefore = s.Size
			}
		}
		return nil
	})
	lo := len(states) - 1
	var hookErr error
	budget := ch.Int("inline_budget", 0, 25)
	inHook := false
	hfs.SetHook(func(e hookfs.Event) {
		if inHook || hookErr != nil || budget <= 0 {
			return
		}
		if !(e.Op == "open" || e.Op == "read" || e.Op == "write" || e.Op == "close" || e.Op == "mkdir" || e.Op == "stat" || e.Op == "readdir") {
			return
		}
		inHook = true
		defer func() { inHook = false }()
		n := ch.Int("inline_n", 0, 3)
		for j := 0; j < n && budget > 0; j++ {
			budget--
			if core.Pct(ch, "inline_compact", 5) {
				// Compact during a backup reports "busy": it must not run
				if err := core.Safe(func() error { _, e := db.Compact(); return e }); err == nil {
					hookErr = fmt.Errorf("Compact ran to completion while Backup was in progress")
				}
				continue
			}
			if err := writer(fmt.Sprintf("    [during backup, at %s %s] ", e.Op, shortName(e.Name))); err != nil {
				hookErr = err
				return
			}
		}
	})
	bdir := env.Dir + "-bak"
	if kind == "fault" {
		bdir = "bak"
	}
	ch.Note("backup -> %s", bdir)
	berr := core.Safe(func() error { return db.Backup(bdir) })
	hfs.SetHook(nil)
	hi := len(states) - 1
	benv := &Env{Kind: env.Kind, FS: env.FS, Fault: env.Fault, Dir: bdir}
	defer benv.Cleanup()
	if hookErr != nil {
		return hookErr
	}
	if berr != nil {
		return fmt.Errorf("Backup failed: %v", berr)
	}
	rolled, grew := false, false
	_ = core.Safe(func() error {
		sg := db.VerifSegments()
		if len(sg) > segsBefore {
			rolled = true
		}
		for _, s := range sg {
			if s.Current && s.Size > curSizeBefore {
				grew = true
			}
		}
		return nil
	})
	for i, n := 0, ch.Int("after", 0, 5); i < n; i++ {
		if err := writer("[after backup] "); err != nil {
			return err
		}
	}
	// the backup opens (it carries a lock file, so the index is rebuilt from the copied log)
	dbx.ResetLog()
	bdb, err := dbx.Open(bdir, cfg, env.FS)
	if err != nil {
		return fmt.Errorf("opening the backup failed: %v", err)
	}
	got, err := dbx.Dump(bdb)
	_ = core.Safe(func() error { return bdb.Close() })
	if err != nil {
		return fmt.Errorf("reading the backup: %v", err)
	}
	match := -1
	for p := lo; p <= hi; p++ {
		if dbx.Equal(got, states[p]) {
			match = p
			break
		}
	}
	if match < 0 {
		return fmt.Errorf("the backup matches no state between the %d writes acknowledged before Backup was called and the %d issued before it returned: versus the state at the call: %s; versus the state at the return: %s",
			lo, hi, dbx.Diff(got, states[lo]), dbx.Diff(got, states[hi]))
	}
	// the source is not affected
	if err := dbx.CheckAll(db, model, nil); err != nil {
		return fmt.Errorf("source database after Backup: %v", err)
	}
	after := map[string]bool{}
	for _, n := range env.Names() {
		after[n] = true
	}
	for _, n := range namesBefore {
		if !after[n] {
			return fmt.Errorf("file %s disappeared from the source directory during Backup", n)
		}
	}
	st.Eval(1)
	st.Count("fs_"+kind, 1)
	if hi > lo {
		st.Count("backups_overlapped_by_writes", 1)
	}
	if rolled {
		st.Count("backups_with_rollover_during", 1)
	}
	if hi > lo && (rolled || grew) {
		st.Nontrivial(core.FingerprintOf(ch))
		if st.WantSample() {
			n := core.NotesOf(ch, 400)
			if len(n) > 45 {
				n = n[len(n)-45:]
			}
			st.Sample(map[string]interface{}{"tail_of_history": n, "writes_before_call": lo, "writes_before_return": hi, "backup_equals_state": match, "rollover_during_backup": rolled})
		}
	}
	_ = os.Getpid
	return nil
}

func shortName(n string) string {
	if i := strings.LastIndex(n, "/"); i >= 0 {
		return n[i+1:]
	}
	return n
}

func TestC12(t *testing.T) { core.Run(t, "C12", "C12", propC12) }

// ---------------------------------------------------------------------------------------------
// C12 free-running: one writer goroutine, the background compaction worker and Backup run truly
// concurrently (race build). The writer stamps "issued" before and "acknowledged" after every
// operation; a backup taken between the stamps lo (acknowledged when Backup was called) and hi
// (issued when it returned) must equal the reference state after some prefix p, lo <= p <= hi.

func propC12Free(ch core.Chooser, st *core.Stats) error {
	_, ukeys := drawUniverse(ch)
	kind := drawEnvKind(ch, []string{"os", "mmap", "mem"})
	env := NewEnv(kind)
	defer env.Cleanup()
	cfg := dbx.Config{SegSize: uint32(core.PickInt(ch, "segsize", []int{1024, 2048, 8192})), MinSeg: 520, Frag: 0.02}
	cfg.SyncWrites = core.Pct(ch, "syncwrites", 25)
	opts := cfg.Options(env.FS)
	bg := ch.Int("bg_compact_ms", 0, 2)
	opts.BackgroundCompactionInterval = time.Duration(bg) * time.Millisecond
	var db *pogreb.DB
	if err := core.Safe(func() error { var e error; db, e = pogreb.Open(env.Dir, opts); return e }); err != nil {
		return fmt.Errorf("Open failed: %v", err)
	}
	defer func() { _ = core.Safe(func() error { return db.Close() }) }()
	type wop struct {
		del  bool
		key  string
		vlen int
	}
	n := ch.Int("writer_ops", 20, core.Scale(80, 300))
	ops := make([]wop, n)
	for i := range ops {
		k := ukeys[ch.Int("key", 0, len(ukeys)-1)]
		if core.Pct(ch, "hot", 50) {
			k = ukeys[ch.Int("hotkey", 0, 3)]
		}
		ops[i] = wop{del: core.Pct(ch, "isdel", 30), key: k, vlen: core.PickInt(ch, "vlen", []int{0, 5, 60, 300, 490})}
	}
	backups := ch.Int("backups", 1, 3)
	startAfter := make([]int, backups)
	for i := range startAfter {
		startAfter[i] = ch.Int("backup_after", 0, n)
	}
	ch.Note("fs=%s %s bgcompact=%dms writer ops=%d backups after %v", kind, cfg, bg, n, startAfter)
	// reference states are a pure function of the operation list
	states := make([]map[string]string, 0, n+1)
	model := map[string]string{}
	states = append(states, dbx.Clone(model))
	for i, o := range ops {
		if o.del {
			delete(model, o.key)
		} else {
			model[o.key] = mkValue(i, o.vlen)
		}
		states = append(states, dbx.Clone(model))
	}
	var issued, acked int64
	var werr atomic.Value
	var wg sync.WaitGroup
	wg.Add(1)
	go func() {
		defer wg.Done()
		for i, o := range ops {
			atomic.StoreInt64(&issued, int64(i+1))
			err := core.Safe(func() error {
				if o.del {
					return db.Delete([]byte(o.key))
				}
				return db.Put([]byte(o.key), []byte(mkValue(i, o.vlen)))
			})
			if err != nil {
				werr.Store(fmt.Sprintf("writer operation %d failed: %v", i, err))
				return
			}
			atomic.StoreInt64(&acked, int64(i+1))
			if i%8 == 0 {
				runtime.Gosched()
			}
		}
	}()
	overlapped, matched := 0, 0
	for b := 0; b < backups; b++ {
		for atomic.LoadInt64(&acked) < int64(startAfter[b]) && werr.Load() == nil {
			time.Sleep(20 * time.Microsecond)
		}
		bdir := fmt.Sprintf("%s-bak%d", env.Dir, b)
		lo := atomic.LoadInt64(&acked)
		err := core.Safe(func() error { return db.Backup(bdir) })
		hi := atomic.LoadInt64(&issued)
		benv := &Env{Kind: env.Kind, FS: env.FS, Dir: bdir}
		if err != nil {
			benv.Cleanup()
			if strings.Contains(err.Error(), "busy") {
				st.Count("free_backups_busy", 1)
				continue
			}
			wg.Wait()
			return fmt.Errorf("Backup %d failed: %v", b, err)
		}
		bdb, err := dbx.Open(bdir, cfg, env.FS)
		if err != nil {
			benv.Cleanup()
			wg.Wait()
			return fmt.Errorf("opening backup %d failed: %v", b, err)
		}
		got, derr := dbx.Dump(bdb)
		_ = core.Safe(func() error { return bdb.Close() })
		benv.Cleanup()
		if derr != nil {
			wg.Wait()
			return fmt.Errorf("reading backup %d: %v", b, derr)
		}
		match := int64(-1)
		for p := lo; p <= hi; p++ {
			if dbx.Equal(got, states[p]) {
				match = p
				break
			}
		}
		if match < 0 {
			wg.Wait()
			return fmt.Errorf("backup %d matches no state between the %d writes acknowledged before Backup was called and the %d issued before it returned: versus the state at the call: %s; versus the state at the return: %s",
				b, lo, hi, dbx.Diff(got, states[lo]), dbx.Diff(got, states[hi]))
		}
		matched++
		if hi > lo {
			overlapped++
		}
	}
	wg.Wait()
	if e := werr.Load(); e != nil {
		return fmt.Errorf("%s", e)
	}
	if err := dbx.CheckAll(db, model, nil); err != nil {
		return fmt.Errorf("source database after the backups: %v", err)
	}
	st.Eval(1)
	st.Count("free_fs_"+kind, 1)
	st.Count("free_backups_checked", int64(matched))
	st.Count("free_backups_overlapped_by_writes", int64(overlapped))
	if overlapped > 0 {
		st.Nontrivial(core.FingerprintOf(ch))
	}
	return nil
}

func TestC12Free(t *testing.T) { core.Run(t, "C12", "C12free", propC12Free) }
