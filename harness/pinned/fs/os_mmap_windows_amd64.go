package fs

const maxMmapSize = 1 << 48
