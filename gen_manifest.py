#!/usr/bin/env python3
"""Generates MANIFEST.json from checks.json (single source of truth for the registered checks)."""
import json, os, subprocess
ROOT = os.path.dirname(os.path.abspath(__file__))
cfg = json.load(open(os.path.join(ROOT, "checks.json")))
props = [json.loads(l) for l in open(os.path.join(ROOT, "properties.jsonl"))]
na = json.load(open(os.path.join(ROOT, "not_applicable.json"))) if os.path.exists(os.path.join(ROOT, "not_applicable.json")) else {}
hooks_commits = []
try:
    out = subprocess.run(["git", "-C", "/repo", "log", "--format=%H %s"], stdout=subprocess.PIPE, text=True).stdout
    hooks_commits = [l.split()[0] for l in out.splitlines() if l.split(" ", 1)[1].startswith("verif:")]
except Exception:
    pass
checks = []
for p in props:
    pid = p["id"]
    if pid not in cfg:
        continue
    c = cfg[pid]
    checks.append({
        "property_id": pid,
        "quick_cmd": "./check %s quick" % pid,
        "thorough_cmd": "./check %s thorough" % pid,
        "evidence_file": "/verif/evidence/%s.json" % pid,
        "replay_cmd_template": "./check %s replay {path}" % pid,
        "engine": "harness",
        "level_claimed": {"category": c["level"], "text": c["level_text"], "design_ref": c.get("design_ref", "DESIGN.md section 3")},
        "level_note": c["level_note"],
        "technique": c["technique"],
    })
missing = [p["id"] for p in props if p["id"] not in cfg]
m = {
    "version": 1,
    "setup_cmd": "./check build",
    "hooks": {
        "guard": "verif",
        "enable": "go build tag: every check builds /repo's working tree through the harness module (replace github.com/akrylysov/pogreb => /repo) with `go test -tags verif`",
        "baseline_off_cmd": "cd /repo && go test -vet=off -count=1 -timeout 25m ./...",
        "source_commits": hooks_commits,
        "add_only": True,
    },
    "engines": [{"name": "harness", "path": "/verif/harness", "serves_properties": sorted(cfg.keys()),
                 "kind_free_text": "Go module: rapid v1.3.0 property-based/stateful generators with recorded draws (replayable without the library), recording fault-injection FileSystem (process-crash and power-loss images), murmur3 inverse for engineered collisions, independent format decoder, porcupine as linearizability oracle; driver ./check shards, merges evidence and maps outcomes to exit codes"}],
    "checks": checks,
    "not_applicable": [{"property_id": pid, "reason": na.get(pid, "check not built yet in this round (planned, see DESIGN.md section 3)")} for pid in missing],
    "notes": "Technique family: property-based testing and fuzzing. MANIFEST.json is generated from checks.json by gen_manifest.py. known_findings.txt lists open findings and fixed defects.",
}
json.dump(m, open(os.path.join(ROOT, "MANIFEST.json"), "w"), indent=1)
print("MANIFEST.json: %d checks, %d not claimed" % (len(checks), len(missing)))
