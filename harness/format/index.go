package format

import (
	"encoding/binary"
	"fmt"
	"math/bits"
)

// Independent reader of the documented hash table index (docs/design.md, "Hash table index"):
// index files start with the 512-byte header and hold 512-byte buckets of 31 slots
// (hash 4B, segment id 2B, key size 2B, value size 4B, offset 4B; little endian) followed by
// the 8-byte offset of the overflow bucket in the "overflow" file. It shares no code with pogreb.

const (
	BucketSize     = 512
	SlotsPerBucket = 31
)

type Slot struct {
	Hash      uint32
	Segment   uint16
	KeySize   uint16
	ValueSize uint32
	Offset    uint32
}

type Bucket struct {
	Slots [SlotsPerBucket]Slot
	Next  int64
}

func ParseBucket(b []byte) Bucket {
	var out Bucket
	for i := 0; i < SlotsPerBucket; i++ {
		s := b[i*16:]
		out.Slots[i] = Slot{
			Hash:      binary.LittleEndian.Uint32(s[0:4]),
			Segment:   binary.LittleEndian.Uint16(s[4:6]),
			KeySize:   binary.LittleEndian.Uint16(s[6:8]),
			ValueSize: binary.LittleEndian.Uint32(s[8:12]),
			Offset:    binary.LittleEndian.Uint32(s[12:16]),
		}
	}
	out.Next = int64(binary.LittleEndian.Uint64(b[SlotsPerBucket*16 : SlotsPerBucket*16+8]))
	return out
}

// Murmur32 is MurmurHash3 x86 32-bit (public reference algorithm).
func Murmur32(data []byte, seed uint32) uint32 {
	const c1, c2 = 0xcc9e2d51, 0x1b873593
	h := seed
	n := len(data)
	i := 0
	for ; i+4 <= n; i += 4 {
		k := binary.LittleEndian.Uint32(data[i:])
		k *= c1
		k = bits.RotateLeft32(k, 15)
		k *= c2
		h ^= k
		h = bits.RotateLeft32(h, 13)
		h = h*5 + 0xe6546b64
	}
	var k uint32
	switch n & 3 {
	case 3:
		k ^= uint32(data[i+2]) << 16
		fallthrough
	case 2:
		k ^= uint32(data[i+1]) << 8
		fallthrough
	case 1:
		k ^= uint32(data[i])
		k *= c1
		k = bits.RotateLeft32(k, 15)
		k *= c2
		h ^= k
	}
	h ^= uint32(n)
	h ^= h >> 16
	h *= 0x85ebca6b
	h ^= h >> 13
	h *= 0xc2b2ae35
	h ^= h >> 16
	return h
}

// BucketIndex is the documented lookup rule: hash mod 2^L, or hash mod 2^(L+1) when that
// position comes before the split bucket S.
func BucketIndex(hash uint32, level uint8, split uint32) uint32 {
	idx := hash & ((1 << level) - 1)
	if idx < split {
		idx = hash & ((1 << (level + 1)) - 1)
	}
	return idx
}

// Index is a parsed pair of index files.
type Index struct {
	Main     []byte
	Overflow []byte
}

// NumBuckets derives the number of main buckets from the file length.
func (ix *Index) NumBuckets() (int, error) {
	if !HeaderOK(ix.Main) {
		return 0, fmt.Errorf("main index file has no valid documented header")
	}
	if (len(ix.Main)-512)%BucketSize != 0 {
		return 0, fmt.Errorf("main index file length %d is not header + whole buckets", len(ix.Main))
	}
	return (len(ix.Main) - 512) / BucketSize, nil
}

// Chain returns the buckets of the chain of main bucket i.
func (ix *Index) Chain(i int) ([]Bucket, error) {
	off := 512 + i*BucketSize
	if off+BucketSize > len(ix.Main) {
		return nil, fmt.Errorf("main bucket %d beyond the end of the file", i)
	}
	b := ParseBucket(ix.Main[off:])
	out := []Bucket{b}
	for b.Next != 0 {
		if len(out) > 1<<20 {
			return nil, fmt.Errorf("overflow chain of bucket %d does not end", i)
		}
		if !HeaderOK(ix.Overflow) {
			return nil, fmt.Errorf("overflow index file has no valid documented header")
		}
		if b.Next < 512 || int(b.Next)+BucketSize > len(ix.Overflow) {
			return nil, fmt.Errorf("overflow pointer %d of chain %d outside the overflow file (%d bytes)", b.Next, i, len(ix.Overflow))
		}
		b = ParseBucket(ix.Overflow[b.Next:])
		out = append(out, b)
	}
	return out, nil
}

// Lookup finds the slot of key following the documented lookup procedure. segs maps segment id
// to segment bytes. It returns the value and whether the key was found.
func (ix *Index) Lookup(key []byte, seed uint32, level uint8, split uint32, segs map[int][]byte) ([]byte, bool, error) {
	h := Murmur32(key, seed)
	bi := BucketIndex(h, level, split)
	chain, err := ix.Chain(int(bi))
	if err != nil {
		return nil, false, err
	}
	for _, b := range chain {
		for _, sl := range b.Slots {
			if sl.Offset == 0 {
				break
			}
			if sl.Hash != h || int(sl.KeySize) != len(key) {
				continue
			}
			seg, ok := segs[int(sl.Segment)]
			if !ok {
				return nil, false, fmt.Errorf("slot of hash %08x names segment %d which does not exist", h, sl.Segment)
			}
			start := int(sl.Offset)
			end := start + 6 + int(sl.KeySize) + int(sl.ValueSize) + 4
			if start < 512 || end > len(seg) {
				return nil, false, fmt.Errorf("slot of hash %08x points outside segment %d (%d..%d of %d)", h, sl.Segment, start, end, len(seg))
			}
			recs, _ := Decode(append(append([]byte{}, seg[:512]...), seg[start:end]...))
			if len(recs) != 1 {
				return nil, false, fmt.Errorf("slot of hash %08x points at bytes (segment %d offset %d) that are not one valid record of the recorded sizes", h, sl.Segment, start)
			}
			if recs[0].Delete {
				return nil, false, fmt.Errorf("slot of hash %08x points at a delete record", h)
			}
			if string(recs[0].Key) == string(key) {
				return recs[0].Value, true, nil
			}
		}
	}
	return nil, false, nil
}

// CountSlots returns the number of used slots reachable from the main buckets.
func (ix *Index) CountSlots() (int, error) {
	n, err := ix.NumBuckets()
	if err != nil {
		return 0, err
	}
	total := 0
	for i := 0; i < n; i++ {
		chain, err := ix.Chain(i)
		if err != nil {
			return 0, err
		}
		for _, b := range chain {
			for _, sl := range b.Slots {
				if sl.Offset != 0 {
					total++
				}
			}
		}
	}
	return total, nil
}
