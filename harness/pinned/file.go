package pogreb

import (
	"io"
	"os"

	"verif/harness/pinned/fs"
)

// file is a database file.
// When stored in a file system, the file starts with a header.
type file struct {
	fs.File
	size int64
}

type openFileFlags struct {
	truncate bool
	readOnly bool
}

func openFile(fsyst fs.FileSystem, name string, flags openFileFlags) (*file, error) {
	var flag int
	if flags.readOnly {
		flag = os.O_RDONLY
	} else {
		flag = os.O_CREATE | os.O_RDWR
		if flags.truncate {
			flag |= os.O_TRUNC
		}
	}
	fi, err := fsyst.OpenFile(name, flag, os.FileMode(0640))
	f := &file{}
	if err != nil {
		return f, err
	}
	clean := fi.Close
	defer func() {
		if clean != nil {
			_ = clean()
		}
	}()
	f.File = fi
	stat, err := fi.Stat()
	if err != nil {
		return f, err
	}
	f.size = stat.Size()
	if f.size == 0 {
		// It's a new file - write header.
		if err := f.writeHeader(); err != nil {
			return nil, err
		}
	} else {
		if err := f.readHeader(); err != nil {
			return nil, err
		}
	}
	if _, err := f.Seek(int64(headerSize), io.SeekStart); err != nil {
		return nil, err
	}
	clean = nil
	return f, nil
}

func (f *file) writeHeader() error {
	h := newHeader()
	data, err := h.MarshalBinary()
	if err != nil {
		return err
	}
	if _, err = f.append(data); err != nil {
		return err
	}
	return nil
}

func (f *file) readHeader() error {
	h := &header{}
	buf := make([]byte, headerSize)
	if _, err := io.ReadFull(f, buf); err != nil {
		return err
	}
	return h.UnmarshalBinary(buf)
}

func (f *file) empty() bool {
	return f.size == int64(headerSize)
}

func (f *file) extend(size uint32) (int64, error) {
	off := f.size
	if err := f.Truncate(off + int64(size)); err != nil {
		return 0, err
	}
	f.size += int64(size)
	return off, nil
}

func (f *file) append(data []byte) (int64, error) {
	off := f.size
	if _, err := f.WriteAt(data, off); err != nil {
		return 0, err
	}
	f.size += int64(len(data))
	return off, nil
}
