package checks

import (
	"encoding/binary"
	"fmt"
	"sort"
	"strings"
	"testing"

	"verif/harness/core"
	"verif/harness/dbx"
	"verif/harness/faultfs"
	"verif/harness/format"
)

// FuzzTailRecovery is the byte-level, coverage-guided companion of C08 and C19 (thorough tier
// only; native fuzzing cannot be seeded, the saved crasher is the reproducible unit).
// The input is appended verbatim to a segment of a small database built through the API (the
// first input byte selects base image and segment); the directory carries a lock file, so Open
// recovers. Oracles inside the target: Open neither fails nor panics; contents, Count and point
// reads equal the replay of what the independent decoder accepts; every segment ends where its
// valid prefix ends; the recovery allocates no more than the same recovery without the tail plus
// 16 x len(tail) + 1 MiB.
type fuzzBase struct {
	cfg   dbx.Config
	img   *faultfs.State
	segs  []string
	ukeys []string
	ctrl  uint64 // allocation of the recovering Open without a tail
}

var fuzzBases []*fuzzBase

func buildFuzzBases() error {
	if fuzzBases != nil {
		return nil
	}
	for seed := uint64(1); seed <= 4; seed++ {
		ch := core.NewSeqChooser(seed * 7919)
		st := core.NewStats()
		_, ukeys := drawUniverse(ch)
		cfg := dbx.Config{SegSize: []uint32{2048, 2048, 16384, 1 << 20}[seed-1], MinSeg: 520, Frag: 0.02}
		s := newFsess(ch, st, nil, cfg, ukeys, map[string]string{})
		s.valueLens = tailValueLens
		if err := s.open(); err != nil {
			return err
		}
		if err := s.runOps(10+int(seed)*8, []int{8, 3, 0, 0, 1, 0, 0}); err != nil {
			return err
		}
		img := s.fs.Snapshot()
		img.EnsureFile("db/lock")
		b := &fuzzBase{cfg: cfg, img: img, ukeys: ukeys}
		for name := range img.Dir {
			if strings.HasSuffix(name, ".psg") {
				b.segs = append(b.segs, name)
			}
		}
		sort.Slice(b.segs, func(i, j int) bool {
			_, x, _ := format.ParseSegmentName(strings.TrimPrefix(b.segs[i], "db/"))
			_, y, _ := format.ParseSegmentName(strings.TrimPrefix(b.segs[j], "db/"))
			return x < y
		})
		open := func() error { _, err := dbx.Open("db", cfg, faultfs.Adopt(img.Clone())); return err }
		if _, err := allocDuring(open); err != nil {
			return err
		}
		a, err := allocDuring(open)
		if err != nil {
			return err
		}
		b.ctrl = a
		fuzzBases = append(fuzzBases, b)
	}
	return nil
}

func FuzzTailRecovery(f *testing.F) {
	if err := buildFuzzBases(); err != nil {
		f.Fatalf("building base images: %v", err)
	}
	hdr := func(ks uint16, vs uint32) []byte {
		h := make([]byte, 6)
		binary.LittleEndian.PutUint16(h, ks)
		binary.LittleEndian.PutUint32(h[2:], vs)
		return h
	}
	// seeds: valid records, torn records, hostile constants
	f.Add([]byte{0})
	f.Add(append([]byte{1}, format.Encode([]byte("k"), []byte("v"), false)...))
	f.Add(append([]byte{2}, format.Encode([]byte("gone"), nil, true)...))
	rec := format.Encode([]byte("torn-key"), make([]byte, 600), false)
	f.Add(append([]byte{3}, rec[:300]...))
	f.Add(append([]byte{4}, rec[:len(rec)-1]...))
	for i, h := range [][]byte{hdr(0xffff, 0x7fffffff), hdr(0, 0x80000000), hdr(0, 0xffffffff), hdr(1, 0x80000001), hdr(0xffff, 0), hdr(8, 1<<24), hdr(0, 1<<30), hdr(300, 0x80000000|1<<28)} {
		f.Add(append([]byte{byte(5 + i)}, h...))
		f.Add(append(append([]byte{byte(5 + i)}, h...), make([]byte, 700)...))
	}
	f.Add(append([]byte{9}, make([]byte, 4200)...))
	f.Fuzz(func(t *testing.T, in []byte) {
		if len(in) == 0 || len(in) > 1<<16 {
			return
		}
		b := fuzzBases[int(in[0])%len(fuzzBases)]
		target := b.segs[int(in[0]/8)%len(b.segs)]
		tail := in[1:]
		img := b.img.Clone()
		ino := img.Dir[target]
		img.Inodes[ino] = append(append([]byte(nil), img.Inodes[ino]...), tail...)
		tb := &tailBase{cfg: b.cfg, ukeys: b.ukeys, img: img, segs: b.segs}
		desc := fmt.Sprintf("fuzzed tail of %d bytes appended to %s", len(tail), target)
		got, err := allocDuring(func() error {
			_, err := dbx.Open("db", b.cfg, faultfs.Adopt(img.Clone()))
			return err
		})
		if err != nil {
			t.Fatalf("%s: Open failed: %v", desc, err)
		}
		if bound := b.ctrl + 16*uint64(len(tail)) + 1<<20; got > bound {
			t.Fatalf("%s: the recovering Open allocated %d bytes, the same Open without the tail %d (bound %d)", desc, got, b.ctrl, bound)
		}
		if _, err := recoverAndCompare(tb, desc); err != nil {
			if _, inc := err.(*core.Inconclusive); inc {
				t.Skip(err.Error())
			}
			t.Fatalf("%v", err)
		}
	})
}
