package checks

import (
	"fmt"
	"os"
	"path/filepath"
	"sort"
	"strings"
	"sync/atomic"

	"github.com/akrylysov/pogreb"
	pfs "github.com/akrylysov/pogreb/fs"

	"verif/harness/core"
	"verif/harness/faultfs"
)

// Env is a directory on some file system implementation.
type Env struct {
	Kind  string // "fault", "mem", "os", "mmap"
	FS    pfs.FileSystem
	Fault *faultfs.FS
	Dir   string
}

var envCounter int64

func scratchRoot() string {
	d := os.Getenv("VERIF_SCRATCH")
	if d == "" {
		d = os.TempDir()
	}
	return d
}

// NewEnv creates a fresh empty directory of the given kind.
func NewEnv(kind string) *Env {
	id := atomic.AddInt64(&envCounter, 1)
	e := &Env{Kind: kind}
	switch kind {
	case "fault":
		e.Fault = faultfs.New()
		e.FS = e.Fault
		e.Dir = "db"
	case "mem":
		e.FS = pfs.Mem
		e.Dir = fmt.Sprintf("memdb-%d-%d", os.Getpid(), id)
	case "os", "mmap":
		e.FS = pfs.OS
		if kind == "mmap" {
			e.FS = pfs.OSMMap
		}
		e.Dir = filepath.Join(scratchRoot(), fmt.Sprintf("db-%d-%d", os.Getpid(), id))
		_ = os.RemoveAll(e.Dir)
	default:
		panic("unknown env kind " + kind)
	}
	return e
}

// SwitchOS toggles between the plain and the memory-mapped OS file system (same directory).
func (e *Env) SwitchOS() {
	switch e.Kind {
	case "os":
		e.Kind, e.FS = "mmap", pfs.OSMMap
	case "mmap":
		e.Kind, e.FS = "os", pfs.OS
	}
}

// Cleanup removes the directory.
func (e *Env) Cleanup() {
	switch e.Kind {
	case "mem":
		entries, _ := pfs.Mem.ReadDir(e.Dir)
		for _, de := range entries {
			_ = pfs.Mem.Remove(filepath.Join(e.Dir, de.Name()))
		}
	case "os", "mmap":
		_ = os.RemoveAll(e.Dir)
	}
}

// Files returns name -> content of the files in the directory.
func (e *Env) Files() (map[string][]byte, error) {
	out := map[string][]byte{}
	if e.Kind == "fault" {
		st := e.Fault.Snapshot()
		for name, data := range st.Files() {
			if filepath.Dir(name) == e.Dir {
				out[filepath.Base(name)] = data
			}
		}
		return out, nil
	}
	entries, err := e.FS.ReadDir(e.Dir)
	if err != nil {
		return nil, err
	}
	for _, de := range entries {
		b, err := readFile(e.FS, filepath.Join(e.Dir, de.Name()))
		if err != nil {
			return nil, err
		}
		out[de.Name()] = b
	}
	return out, nil
}

func readFile(fsys pfs.FileSystem, path string) ([]byte, error) {
	f, err := fsys.OpenFile(path, os.O_RDONLY, 0)
	if err != nil {
		return nil, err
	}
	defer f.Close()
	st, err := f.Stat()
	if err != nil {
		return nil, err
	}
	b := make([]byte, st.Size())
	if len(b) > 0 {
		if _, err := f.ReadAt(b, 0); err != nil {
			return nil, err
		}
	}
	return b, nil
}

// Names returns the sorted file names of the directory.
func (e *Env) Names() []string {
	files, _ := e.Files()
	var names []string
	for n := range files {
		names = append(names, n)
	}
	sort.Strings(names)
	return names
}

func drawEnvKind(ch core.Chooser, kinds []string) string {
	return kinds[ch.Int("fs", 0, len(kinds)-1)]
}

// pinSeed pins the hash seed of every database created from now on.
func pinSeed(seed uint32) {
	s := seed
	pogreb.VerifSeedOverride = &s
}

func hasSuffixAny(s string, suffixes ...string) bool {
	for _, x := range suffixes {
		if strings.HasSuffix(s, x) {
			return true
		}
	}
	return false
}

func sortStrings(s []string) { sort.Strings(s) }
