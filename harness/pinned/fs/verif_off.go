//go:build !verif

package fs

// Verification hooks are compiled out without the "verif" build tag.

func verifLockYield(point string) {}
