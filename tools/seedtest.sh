#!/bin/bash
# Confirms a seeded change and runs checks against it.
#   tools/seedtest.sh <dir with patch.diff, demo, meta.json> <demo -run pattern> <check ids...>
# Steps: fresh scratch worktree of /repo HEAD -> apply patch -> build + existing suite must pass
# -> demo must FAIL with the change -> demo must PASS without it -> run the given checks (quick,
# or MUT_TIER) against the changed tree via VERIF_REPO. The worktree is removed afterwards.
set -u
export GOFLAGS=-mod=mod GOPROXY=off GOSUMDB=off GOTOOLCHAIN=local
src=$(realpath $1); pat=$2; shift 2
name=$(basename $src)
wt=/tmp/wt/seed-$name
mkdir -p /tmp/wt
git -C /repo worktree remove --force $wt >/dev/null 2>&1
git -C /repo worktree add -q --detach $wt HEAD || exit 2
cleanup() { git -C /repo worktree remove --force $wt >/dev/null 2>&1; }
trap cleanup EXIT
cd $wt
git apply $src/patch.diff || { echo "CONFIRM patch does not apply"; exit 2; }
go build ./... || { echo "CONFIRM build: FAIL"; exit 2; }
if [ -z "${SKIP_CONFIRM:-}" ]; then
  if go test -vet=off -count=1 ./... >/tmp/wt/seed-$name.suite.log 2>&1; then echo "CONFIRM existing suite with change: PASS"; else echo "CONFIRM existing suite with change: FAIL"; tail -5 /tmp/wt/seed-$name.suite.log; fi
  demo=$(ls $src/*_test.go | head -1)
  cp $demo $wt/
  tags=""; grep -q "Verif" $demo && tags="-tags verif"
  if go test $tags -vet=off -count=1 -run "$pat" . >/tmp/wt/seed-$name.demo1.log 2>&1; then echo "CONFIRM demo with change: PASS (unexpected)"; else echo "CONFIRM demo with change: FAIL (expected): $(grep -m1 -E '^\s+.*_test.go' /tmp/wt/seed-$name.demo1.log | cut -c1-200)"; fi
  git apply -R $src/patch.diff
  if go test $tags -vet=off -count=1 -run "$pat" . >/tmp/wt/seed-$name.demo2.log 2>&1; then echo "CONFIRM demo without change: PASS (expected)"; else echo "CONFIRM demo without change: FAIL (unexpected)"; tail -5 /tmp/wt/seed-$name.demo2.log; fi
  git apply $src/patch.diff
  rm -f $wt/$(basename $demo)
  rm -f /tmp/wt/seed-$name.*.log
fi
for c in "$@"; do
  out=$(cd /verif && VERIF_REPO=$wt VERIF_SEED=${VERIF_SEED:-1} ./check $c ${MUT_TIER:-quick} 2>&1 | grep -E -A1 "^(VIOLATION|OK|INCONCLUSIVE|KNOWN|BUILD)" | head -4 | cut -c1-400)
  echo "CHECK $c: $out"
done
