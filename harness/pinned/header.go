package pogreb

import (
	"bytes"
	"encoding/binary"
)

const (
	formatVersion = 2 // File format version.
	headerSize    = 512
)

var (
	signature = [8]byte{'p', 'o', 'g', 'r', 'e', 'b', '\x0e', '\xfd'}
)

type header struct {
	signature     [8]byte
	formatVersion uint32
}

func newHeader() *header {
	return &header{
		signature:     signature,
		formatVersion: formatVersion,
	}
}

func (h header) MarshalBinary() ([]byte, error) {
	buf := make([]byte, headerSize)
	copy(buf[:8], h.signature[:])
	binary.LittleEndian.PutUint32(buf[8:12], h.formatVersion)
	return buf, nil
}

func (h *header) UnmarshalBinary(data []byte) error {
	if !bytes.Equal(data[:8], signature[:]) {
		return errCorrupted
	}
	copy(h.signature[:], data[:8])
	h.formatVersion = binary.LittleEndian.Uint32(data[8:12])
	return nil
}
