package pogreb

import "expvar"

// Metrics holds the DB metrics.
type Metrics struct {
	Puts           expvar.Int
	Dels           expvar.Int
	Gets           expvar.Int
	HashCollisions expvar.Int
}
