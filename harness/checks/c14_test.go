package checks

import (
	"bytes"
	"fmt"
	"runtime/debug"
	"testing"

	"github.com/akrylysov/pogreb"

	"verif/harness/core"
	"verif/harness/dbx"
)

type retained struct {
	what  string
	slice []byte
	copy  []byte
	nilOK bool
}

func scribble(b []byte) {
	for i := range b {
		b[i] = 0xEE
	}
}

// C14: returned byte slices belong to the caller; passed-in slices are not retained.
func propC14(ch core.Chooser, st *core.Stats) error {
	old := debug.SetPanicOnFault(true)
	defer debug.SetPanicOnFault(old)
	_, ukeys := drawUniverse(ch)
	kind := drawEnvKind(ch, []string{"mmap", "mmap", "mmap", "os", "mem"})
	env := NewEnv(kind)
	defer env.Cleanup()
	cfg := dbx.Config{SegSize: uint32(core.PickInt(ch, "segsize", []int{600, 1024, 4096})), MinSeg: 520, Frag: 0.02}
	ch.Note("config: %s fs=%s", cfg, kind)
	db, err := dbx.Open(env.Dir, cfg, env.FS)
	if err != nil {
		return err
	}
	defer func() {
		if db != nil {
			_ = core.Safe(func() error { return db.Close() })
		}
	}()
	model := map[string]string{}
	var kept []retained
	step := 0
	segsRemoved := 0
	key := func() string {
		if core.Pct(ch, "hot", 50) {
			return ukeys[ch.Int("hotkey", 0, 3)]
		}
		return ukeys[ch.Int("key", 0, len(ukeys)-1)]
	}
	var keepErr error
	// retain records a returned slice with a private copy of its present contents
	retain := func(what string, s []byte) {
		if s == nil {
			return
		}
		kept = append(kept, retained{what: what, slice: s, copy: append([]byte{}, s...)})
	}
	var grow func(what string, s []byte)
	// keep = retain, then grow; slices returned by one call are all retained before any of them
	// is grown (growing one must not reach the other)
	keep := func(what string, s []byte) {
		retain(what, s)
		grow(what, s)
	}
	grow = func(what string, s []byte) {
		if s == nil {
			return
		}
		if what != "GetAppend" && cap(s) > len(s) && keepErr == nil {
			// the slice is the caller's: growing it within its capacity must neither fault nor
			// reach memory of the database (a later comparison with the reference shows damage)
			if err := core.SafeFault(func() error {
				t := append(s, 0xEE, 0xEE, 0xEE, 0xEE)
				_ = t
				return nil
			}); err != nil {
				keepErr = fmt.Errorf("appending to the %d-byte slice (capacity %d) returned by %s faulted: %v", len(s), cap(s), what, err)
			}
			st.Count("returned_slices_with_spare_capacity_appended_to", 1)
		}
	}
	verify := func(when string) error {
		return core.SafeFault(func() error {
			for _, r := range kept {
				if !bytes.Equal(r.slice, r.copy) {
					return fmt.Errorf("%s: a slice returned earlier by %s changed its contents (now %s, was %s)", when, r.what, dbx.V(string(r.slice)), dbx.V(string(r.copy)))
				}
			}
			return nil
		})
	}
	// drawn: a bulk of extra keys, so that the index has several buckets and a scan crosses
	// bucket boundaries while the caller still holds what earlier Next calls returned
	if core.Pct(ch, "bulk", 40) {
		nb := ch.Int("bulk_n", 25, 90)
		for j := 0; j < nb; j++ {
			k := []byte(fmt.Sprintf("bulk-%03d", j))
			v := []byte(mkValue(10000+j, core.PickInt(ch, "bulk_vlen", []int{1, 8, 40})))
			model[string(k)] = string(v)
			if err := core.Safe(func() error { return db.Put(k, v) }); err != nil {
				return fmt.Errorf("Put failed: %v", err)
			}
			scribble(k)
			scribble(v)
		}
		ch.Note("bulk of %d extra keys", nb)
		st.Count("histories_with_bulk", 1)
	}
	steps := ch.Int("steps", 1, core.Scale(80, 300))
	for i := 0; i < steps; i++ {
		if keepErr != nil {
			return keepErr
		}
		switch core.Weighted(ch, "op", []int{8, 3, 4, 3, 2, 2, 1, 1}) {
		case 0:
			k := key()
			step++
			v := mkValue(step, core.PickInt(ch, "vlen", []int{0, 1, 20, 60, 300, 490}))
			kb, vb := []byte(k), []byte(v)
			ch.Note("put %s len=%d (then scribble over the passed slices)", dbx.K(k), len(v))
			if err := core.Safe(func() error { return db.Put(kb, vb) }); err != nil {
				return fmt.Errorf("Put failed: %v", err)
			}
			// the caller reuses its buffers: both are overwritten, or only the value buffer (a
			// later lookup with the intact key bytes must not see the new buffer contents), and
			// the overwritten key bytes name a key that was never stored
			switch ch.Int("scribble_mode", 0, 2) {
			case 0:
				scribble(kb)
				scribble(vb)
			case 1:
				scribble(vb)
				var got []byte
				if err := core.Safe(func() error { var e error; got, e = db.Get([]byte(k)); return e }); err != nil {
					return fmt.Errorf("Get failed: %v", err)
				}
				if string(got) != v || (got == nil) != false {
					return fmt.Errorf("after the caller overwrote the value buffer it had passed to Put, Get(%s) = %s, want %s", dbx.K(k), dbx.V(string(got)), dbx.V(v))
				}
				scribble(kb)
			default:
				scribble(kb)
				scribble(vb)
				if _, stored := model[string(kb)]; !stored && len(kb) > 0 {
					var got []byte
					if err := core.Safe(func() error { var e error; got, e = db.Get(append([]byte{}, kb...)); return e }); err != nil {
						return fmt.Errorf("Get failed: %v", err)
					}
					if got != nil {
						return fmt.Errorf("after the caller overwrote the key buffer it had passed to Put, Get(<the new buffer contents>) = %s, but that key was never stored", dbx.V(string(got)))
					}
				}
			}
			model[k] = v
		case 1:
			k := key()
			kb := []byte(k)
			ch.Note("delete %s", dbx.K(k))
			if err := core.Safe(func() error { return db.Delete(kb) }); err != nil {
				return fmt.Errorf("Delete failed: %v", err)
			}
			scribble(kb)
			delete(model, k)
		case 2:
			k := key()
			kb := []byte(k)
			var v []byte
			if err := core.Safe(func() error { var e error; v, e = db.Get(kb); return e }); err != nil {
				return fmt.Errorf("Get failed: %v", err)
			}
			scribble(kb)
			if want, ok := model[k]; ok != (v != nil) || string(v) != want {
				return fmt.Errorf("Get(%s) = %s, want %s (present=%v)", dbx.K(k), dbx.V(string(v)), dbx.V(want), ok)
			}
			ch.Note("get %s -> retained", dbx.K(k))
			keep("Get", v)
		case 3:
			k := key()
			mode := ch.Int("bufmode", 0, 2)
			var buf []byte
			switch mode {
			case 1:
				buf = make([]byte, 3, 3+600)
				copy(buf, "pre")
			case 2:
				buf = []byte("pre")
			}
			var v []byte
			if err := core.Safe(func() error { var e error; v, e = db.GetAppend([]byte(k), buf); return e }); err != nil {
				return fmt.Errorf("GetAppend failed: %v", err)
			}
			if want, ok := model[k]; ok {
				if string(v) != string(buf)+want {
					return fmt.Errorf("GetAppend(%s) = %s, want caller prefix %q + %s", dbx.K(k), dbx.V(string(v)), buf, dbx.V(want))
				}
			} else if v != nil {
				return fmt.Errorf("GetAppend(%s) of an absent key = %s, want nil", dbx.K(k), dbx.V(string(v)))
			}
			if mode != 0 && string(buf) != "pre" {
				return fmt.Errorf("GetAppend modified the caller's prefix: %q", buf)
			}
			ch.Note("getappend %s bufmode=%d -> retained", dbx.K(k), mode)
			keep("GetAppend", v)
		case 4:
			n := ch.Int("iter_n", 1, 12)
			if core.Pct(ch, "iter_full", 35) {
				n = 400 // a complete scan: everything it returns is retained while it goes on
			}
			ch.Note("iterate %d items -> retained", n)
			err := core.Safe(func() error {
				it := db.Items()
				for j := 0; j < n; j++ {
					k, v, e := it.Next()
					if e == pogreb.ErrIterationDone {
						return nil
					}
					if e != nil {
						return fmt.Errorf("Next failed: %v", e)
					}
					if want, ok := model[string(k)]; !ok || want != string(v) {
						return fmt.Errorf("Next returned %s=%s, reference has %s (present=%v)", dbx.K(string(k)), dbx.V(string(v)), dbx.V(want), ok)
					}
					kc, vc := append([]byte{}, k...), append([]byte{}, v...)
					retain("ItemIterator.Next (key)", k)
					retain("ItemIterator.Next (value)", v)
					grow("ItemIterator.Next (key)", k)
					grow("ItemIterator.Next (value)", v)
					if !bytes.Equal(v, vc) || !bytes.Equal(k, kc) {
						return fmt.Errorf("appending within its capacity to a slice returned by ItemIterator.Next changed the other slice returned by the same call (key now %s, value now %s)", dbx.V(string(k)), dbx.V(string(v)))
					}
				}
				return nil
			})
			if err != nil {
				return err
			}
			if err := verify("after the scan"); err != nil {
				return err
			}
		case 5:
			ch.Note("compact")
			var cr pogreb.CompactionResult
			if err := core.Safe(func() error { var e error; cr, e = db.Compact(); return e }); err != nil {
				return fmt.Errorf("Compact failed: %v", err)
			}
			segsRemoved += cr.CompactedSegments
			if err := verify("after Compact"); err != nil {
				return err
			}
		case 6:
			ch.Note("clean restart")
			if err := core.Safe(func() error { return db.Close() }); err != nil {
				db = nil
				return fmt.Errorf("Close failed: %v", err)
			}
			db = nil
			if err := verify("after Close"); err != nil {
				return err
			}
			if db, err = dbx.Open(env.Dir, cfg, env.FS); err != nil {
				return fmt.Errorf("reopen failed: %v", err)
			}
		case 7:
			ch.Note("kill + recover")
			db.VerifKill()
			db = nil
			if err := verify("after kill"); err != nil {
				return err
			}
			if db, err = dbx.Open(env.Dir, cfg, env.FS); err != nil {
				return fmt.Errorf("recovery failed: %v", err)
			}
		}
	}
	if err := dbx.CheckAll(db, model, ukeys); err != nil {
		return fmt.Errorf("contents (reference built from the original argument bytes): %v", err)
	}
	if err := core.Safe(func() error { return db.Close() }); err != nil {
		db = nil
		return fmt.Errorf("Close failed: %v", err)
	}
	db = nil
	if err := verify("after the final Close"); err != nil {
		return err
	}
	st.Eval(1)
	st.Count("fs_"+kind, 1)
	st.Count("retained_slices", int64(len(kept)))
	if kind == "mmap" && len(kept) > 0 {
		if segsRemoved > 0 {
			st.Count("cases_segment_removed_after_reads", 1)
		}
		st.Nontrivial(core.FingerprintOf(ch))
		if st.WantSample() {
			st.Sample(map[string]interface{}{"history": core.NotesOf(ch, 40), "retained_slices": len(kept), "segments_removed_by_compaction": segsRemoved})
		}
	}
	return nil
}

func TestC14(t *testing.T) { core.Run(t, "C14", "C14", propC14) }
