package fs

import (
	"io"
	"os"
	"path/filepath"
	"time"
)

type memFS struct {
	files map[string]*memFile
}

// Mem is a file system backed by memory.
// It should be used for testing only.
var Mem FileSystem = &memFS{files: map[string]*memFile{}}

func (fs *memFS) OpenFile(name string, flag int, perm os.FileMode) (File, error) {
	if flag&os.O_APPEND != 0 {
		// memFS doesn't support opening files in append-only mode.
		// The database doesn't currently use O_APPEND.
		return nil, errAppendModeNotSupported
	}
	f := fs.files[name]
	if f == nil {
		// The file doesn't exist.
		if (flag & os.O_CREATE) == 0 {
			return nil, os.ErrNotExist
		}
		f = &memFile{
			name: name,
			perm: perm, // Perm is saved to return it in Mode, but don't do anything else with it yet.
			refs: 1,
		}
		fs.files[name] = f
	} else {
		if (flag & os.O_TRUNC) != 0 {
			f.size = 0
			f.buf = nil
		}
		f.refs += 1
	}
	return &seekableMemFile{memFile: f}, nil
}

func (fs *memFS) CreateLockFile(name string, perm os.FileMode) (LockFile, bool, error) {
	f, exists := fs.files[name]
	if f != nil && f.refs > 0 {
		return nil, false, os.ErrExist
	}
	_, err := fs.OpenFile(name, os.O_CREATE, perm)
	if err != nil {
		return nil, false, err
	}
	return fs.files[name], exists, nil
}

func (fs *memFS) Stat(name string) (os.FileInfo, error) {
	if f, ok := fs.files[name]; ok {
		return f, nil
	}
	return nil, os.ErrNotExist
}

func (fs *memFS) Remove(name string) error {
	if _, ok := fs.files[name]; ok {
		delete(fs.files, name)
		return nil
	}
	return os.ErrNotExist
}

func (fs *memFS) Rename(oldpath, newpath string) error {
	if f, ok := fs.files[oldpath]; ok {
		delete(fs.files, oldpath)
		fs.files[newpath] = f
		f.name = newpath
		return nil
	}
	return os.ErrNotExist
}

func (fs *memFS) ReadDir(dir string) ([]os.DirEntry, error) {
	dir = filepath.Clean(dir)
	var entries []os.DirEntry
	for name, f := range fs.files {
		if filepath.Dir(name) == dir {
			entries = append(entries, f)
		}
	}
	return entries, nil
}

func (fs *memFS) MkdirAll(path string, perm os.FileMode) error {
	// FIXME: the implementation is incomplete.
	// memFS lets create a file even when the parent directory doesn't exist.
	return nil
}

type memFile struct {
	name string
	perm os.FileMode
	buf  []byte
	size int64
	refs int
}

func (f *memFile) Close() error {
	if f.refs == 0 {
		return os.ErrClosed
	}
	f.refs -= 1
	return nil
}

func (f *memFile) Unlock() error {
	if err := f.Close(); err != nil {
		return err
	}
	return Mem.Remove(f.name)
}

func (f *memFile) ReadAt(p []byte, off int64) (int, error) {
	if f.refs == 0 {
		return 0, os.ErrClosed
	}
	if off >= f.size {
		return 0, io.EOF
	}
	n := int64(len(p))
	if n > f.size-off {
		copy(p, f.buf[off:])
		return int(f.size - off), nil
	}
	copy(p, f.buf[off:off+n])
	return int(n), nil
}

func (f *memFile) WriteAt(p []byte, off int64) (int, error) {
	if f.refs == 0 {
		return 0, os.ErrClosed
	}
	n := int64(len(p))
	if off+n > f.size {
		f.truncate(off + n)
	}
	copy(f.buf[off:off+n], p)
	return int(n), nil
}

func (f *memFile) Stat() (os.FileInfo, error) {
	if f.refs == 0 {
		return f, os.ErrClosed
	}
	return f, nil
}

func (f *memFile) Sync() error {
	if f.refs == 0 {
		return os.ErrClosed
	}
	return nil
}

func (f *memFile) truncate(size int64) {
	if size > f.size {
		diff := int(size - f.size)
		f.buf = append(f.buf, make([]byte, diff)...)
	} else {
		f.buf = f.buf[:size]
	}
	f.size = size
}

func (f *memFile) Truncate(size int64) error {
	if f.refs == 0 {
		return os.ErrClosed
	}
	f.truncate(size)
	return nil
}

func (f *memFile) Name() string {
	_, name := filepath.Split(f.name)
	return name
}

func (f *memFile) Size() int64 {
	return f.size
}

func (f *memFile) Mode() os.FileMode {
	return f.perm
}

func (f *memFile) ModTime() time.Time {
	return time.Now()
}

func (f *memFile) IsDir() bool {
	return false
}

func (f *memFile) Sys() interface{} {
	return nil
}

func (f *memFile) Type() os.FileMode {
	return f.perm
}

func (f *memFile) Info() (os.FileInfo, error) {
	return f.Stat()
}

func (f *memFile) Slice(start int64, end int64) ([]byte, error) {
	if f.refs == 0 {
		return nil, os.ErrClosed
	}
	if end > f.size {
		return nil, io.EOF
	}
	return f.buf[start:end], nil
}

type seekableMemFile struct {
	*memFile
	offset int64
}

func (f *seekableMemFile) Read(p []byte) (int, error) {
	n, err := f.ReadAt(p, f.offset)
	if err != nil {
		return n, err
	}
	f.offset += int64(n)
	return n, err
}

func (f *seekableMemFile) Write(p []byte) (int, error) {
	n, err := f.WriteAt(p, f.offset)
	if err != nil {
		return n, err
	}
	f.offset += int64(n)
	return n, err
}

func (f *seekableMemFile) Seek(offset int64, whence int) (int64, error) {
	if f.refs == 0 {
		return 0, os.ErrClosed
	}
	switch whence {
	case io.SeekEnd:
		f.offset = f.size + offset
	case io.SeekStart:
		f.offset = offset
	case io.SeekCurrent:
		f.offset += offset
	}
	return f.offset, nil
}
