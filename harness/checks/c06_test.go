package checks

import (
	"fmt"
	"testing"

	"verif/harness/core"
	"verif/harness/dbx"
	"verif/harness/faultfs"
)

const absentMark = "\x00<absent>"

// powerLoss draws a power-loss image of the log of s on top of the durable state base.
// Returns the image, whether any unsynced data operation was lost, and a description.
func powerLoss(ch core.Chooser, s *fsess, base *faultfs.State, p int) (*faultfs.State, bool, string) {
	log := s.fs.LogCopy()
	lost := false
	mode := ch.Int("survive_mode", 0, 3) // 0: drawn per file, 1: nothing unsynced survives, 2: everything survives, 3: drawn per file
	img := faultfs.PowerLossImage(base, log, p,
		func(ino, lo, hi int) int {
			k := hi
			switch mode {
			case 1:
				k = lo
			case 2:
				k = hi
			default:
				k = ch.Int(fmt.Sprintf("keep_ino%d", ino), lo, hi)
			}
			if k < hi {
				lost = true
			}
			return k
		},
		func(op faultfs.Op, tp []int64) int64 {
			if mode == 1 || mode == 2 {
				return 0
			}
			k := ch.Int("tear", 0, len(tp))
			if k == 0 {
				return 0
			}
			return tp[k-1]
		})
	return img, lost, fmt.Sprintf("power failure after %d of %d file-system operations (survival mode %d)", p, len(log), mode)
}

// syncOracle computes, for a power failure at log position p, the state as of the last
// completed sync point and the values written (or deletions made) per key after it.
func syncOracle(s *fsess, durable map[string]string, p int) (synced map[string]string, later map[string][]string, syncPoints int) {
	synced = dbx.Clone(durable)
	cur := dbx.Clone(durable)
	later = map[string][]string{}
	for _, e := range s.events {
		if e.Start > p {
			break
		}
		completed := e.End <= p
		switch e.Kind {
		case "put":
			cur[e.Key] = e.Val
			later[e.Key] = append(later[e.Key], e.Val)
		case "del":
			delete(cur, e.Key)
			later[e.Key] = append(later[e.Key], absentMark)
		}
		if completed && (e.Kind == "sync" || (s.cfg.SyncWrites && (e.Kind == "put" || e.Kind == "del"))) {
			synced = dbx.Clone(cur)
			later = map[string][]string{}
			syncPoints++
		}
	}
	return
}

func checkAdmissible(got, synced map[string]string, later map[string][]string, desc string) error {
	keys := map[string]bool{}
	for k := range got {
		keys[k] = true
	}
	for k := range synced {
		keys[k] = true
	}
	for k := range later {
		keys[k] = true
	}
	for k := range keys {
		g, ok := got[k]
		if !ok {
			g = absentMark
		}
		b, ok := synced[k]
		if !ok {
			b = absentMark
		}
		fine := g == b
		for _, l := range later[k] {
			if g == l {
				fine = true
			}
		}
		if !fine {
			show := func(v string) string {
				if v == absentMark {
					return "<absent>"
				}
				return dbx.V(v)
			}
			var lv []string
			for _, l := range later[k] {
				lv = append(lv, show(l))
			}
			return fmt.Errorf("%s: key %s holds %s after the failure; value at the last completed sync point: %s; written after it: %v",
				desc, dbx.K(k), show(g), show(b), lv)
		}
	}
	return nil
}

// C06: synced writes survive power loss through rollover, compaction and recovery.
func propC06(ch core.Chooser, st *core.Stats) error {
	_, ukeys := drawUniverse(ch)
	cfg := dbx.DrawConfig(ch, []int{600, 1024, 2048, 4096})
	cfg.SyncWrites = core.Pct(ch, "syncwrites", 30)
	ch.Note("config: %s universe=%d keys", cfg, len(ukeys))
	base := faultfs.NewState()
	durable := map[string]string{}
	epochs := ch.Int("epochs", 1, core.Scale(2, 3))
	for e := 0; e < epochs; e++ {
		ch.Note("== power epoch %d", e)
		s := newFsess(ch, st, base, cfg, ukeys, durable)
		s.inlineWeight = []int{4, 3, 1, 4, 1}
		s.hotCold = core.Pct(ch, "hotcold", 30)
		if err := s.open(); err != nil {
			return fmt.Errorf("epoch %d: %v", e, err)
		}
		if err := s.readback("after Open"); err != nil {
			return fmt.Errorf("epoch %d: %v", e, err)
		}
		n := ch.Int("nops", 1, core.Scale(30, 80))
		if err := s.runOps(n, []int{8, 4, 3, 2, 1, 1, 1, 1}); err != nil {
			return fmt.Errorf("epoch %d: %v", e, err)
		}
		logLen := s.fs.LogLen()
		// power-failure instant: half of the draws inside a compaction or shortly after a sync point
		p := -1
		if core.Bool(ch, "aim") {
			var cands [][2]int
			cands = append(cands, s.compactRanges...)
			for _, ev := range s.events {
				if ev.Kind == "sync" || (cfg.SyncWrites && ev.Kind != "sync") {
					hi := ev.End + 12
					if hi > logLen {
						hi = logLen
					}
					cands = append(cands, [2]int{ev.End, hi})
				}
			}
			if len(cands) > 0 {
				r := cands[ch.Int("aim_range", 0, len(cands)-1)]
				p = ch.Int("p_in_range", r[0], r[1])
				st.Count("failure_instant_aimed", 1)
			}
		}
		if p < 0 {
			p = ch.Int("p", 0, logLen)
		}
		img, lost, desc := powerLoss(ch, s, base, p)
		desc = fmt.Sprintf("epoch %d: %s", e, desc)
		ch.Note("%s", desc)
		synced, later, syncPoints := syncOracle(s, durable, p)
		fs2 := faultfs.Adopt(img.Clone())
		db2, err := dbx.Open("db", cfg, fs2)
		if err != nil {
			return fmt.Errorf("%s: Open after the power failure failed: %v", desc, err)
		}
		got, err := dbx.Dump(db2)
		if err != nil {
			return fmt.Errorf("%s: reading the database after the power failure: %v", desc, err)
		}
		if err := checkAdmissible(got, synced, later, desc); err != nil {
			return err
		}
		for j := 0; j < len(ukeys) && j < 12; j++ {
			k := ukeys[(j*5+p)%len(ukeys)]
			if err := dbx.CheckPoint(db2, got, k); err != nil {
				return fmt.Errorf("%s: point reads disagree with the scan: %v", desc, err)
			}
		}
		st.Eval(1)
		inCompaction := false
		for _, r := range s.compactRanges {
			if p > r[0] && p < r[1] {
				inCompaction = true
			}
		}
		if inCompaction {
			st.Count("failure_inside_compaction", 1)
		}
		if lost {
			st.Count("images_losing_unsynced_data", 1)
		}
		if syncPoints > 0 {
			st.Count("images_after_a_sync_point", 1)
		}
		if s.inlineSyncs > 0 {
			st.Count("epochs_with_inline_sync_in_compaction", 1)
		}
		if e > 0 {
			st.Count("images_second_or_later_epoch", 1)
		}
		if lost && syncPoints > 0 {
			st.NontrivialSub(core.FingerprintOf(ch), e)
			if st.WantSample() && inCompaction {
				st.Sample(map[string]interface{}{"history": core.NotesOf(ch, 60), "failure": desc, "sync_points_before_failure": syncPoints})
			}
		}
		base = img
		durable = got
	}
	return nil
}

func TestC06(t *testing.T) { core.Run(t, "C06", "C06", propC06) }
