module verif/harness

go 1.23

require (
	github.com/akrylysov/pogreb v0.0.0
	github.com/anishathalye/porcupine v1.3.0
	pgregory.net/rapid v1.3.0
)

replace github.com/akrylysov/pogreb => /repo
