//go:build plan9
// +build plan9

package fs

import (
	"os"
	"syscall"
)

func createLockFile(name string, perm os.FileMode) (LockFile, bool, error) {
	acquiredExisting := false
	if _, err := os.Stat(name); err == nil {
		acquiredExisting = true
	}
	f, err := os.OpenFile(name, os.O_RDWR|os.O_CREATE, syscall.DMEXCL|perm)
	if err != nil {
		return nil, false, err
	}
	return &osLockFile{f, name}, acquiredExisting, nil
}

// Return a default FileSystem for this platform.
func DefaultFileSystem() FileSystem {
	return OS
}
