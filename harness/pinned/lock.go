package pogreb

import (
	"os"

	"verif/harness/pinned/fs"
)

const (
	lockName = "lock"
)

func createLockFile(opts *Options) (fs.LockFile, bool, error) {
	return opts.FileSystem.CreateLockFile(lockName, os.FileMode(0644))
}
