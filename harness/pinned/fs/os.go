package fs

import (
	"os"
)

type osFS struct{}

// OS is a file system backed by the os package.
var OS FileSystem = &osFS{}

func (fs *osFS) OpenFile(name string, flag int, perm os.FileMode) (File, error) {
	f, err := os.OpenFile(name, flag, perm)
	if err != nil {
		return nil, err
	}
	return &osFile{File: f}, nil
}

func (fs *osFS) CreateLockFile(name string, perm os.FileMode) (LockFile, bool, error) {
	return createLockFile(name, perm)
}

func (fs *osFS) Stat(name string) (os.FileInfo, error) {
	return os.Stat(name)
}

func (fs *osFS) Remove(name string) error {
	return os.Remove(name)
}

func (fs *osFS) Rename(oldpath, newpath string) error {
	return os.Rename(oldpath, newpath)
}

func (fs *osFS) ReadDir(name string) ([]os.DirEntry, error) {
	return os.ReadDir(name)
}

func (fs *osFS) MkdirAll(path string, perm os.FileMode) error {
	return os.MkdirAll(path, perm)
}

type osFile struct {
	*os.File
}

func (f *osFile) Slice(start int64, end int64) ([]byte, error) {
	buf := make([]byte, end-start)
	_, err := f.ReadAt(buf, start)
	if err != nil {
		return nil, err
	}
	return buf, nil
}

type osLockFile struct {
	*os.File
	path string
}

func (f *osLockFile) Unlock() error {
	verifLockYield("unlink")
	if err := os.Remove(f.path); err != nil {
		return err
	}
	verifLockYield("close")
	return f.Close()
}
