//go:build windows
// +build windows

package fs

import (
	"os"
	"syscall"
	"unsafe"
)

var (
	modkernel32    = syscall.NewLazyDLL("kernel32.dll")
	procLockFileEx = modkernel32.NewProc("LockFileEx")
)

const (
	errorLockViolation = 0x21
)

func lockfile(f *os.File) error {
	var ol syscall.Overlapped

	r1, _, err := syscall.Syscall6(
		procLockFileEx.Addr(),
		6,
		uintptr(f.Fd()), // handle
		uintptr(0x0003),
		uintptr(0), // reserved
		uintptr(1), // locklow
		uintptr(0), // lockhigh
		uintptr(unsafe.Pointer(&ol)),
	)
	if r1 == 0 && (err == syscall.ERROR_FILE_EXISTS || err == errorLockViolation) {
		return os.ErrExist
	}
	return nil
}

func createLockFile(name string, perm os.FileMode) (LockFile, bool, error) {
	acquiredExisting := false
	if _, err := os.Stat(name); err == nil {
		acquiredExisting = true
	}
	fd, err := syscall.CreateFile(&(syscall.StringToUTF16(name)[0]),
		syscall.GENERIC_READ|syscall.GENERIC_WRITE,
		syscall.FILE_SHARE_READ|syscall.FILE_SHARE_WRITE|syscall.FILE_SHARE_DELETE,
		nil,
		syscall.CREATE_ALWAYS,
		syscall.FILE_ATTRIBUTE_NORMAL,
		0)
	if err != nil {
		return nil, false, os.ErrExist
	}
	f := os.NewFile(uintptr(fd), name)
	if err := lockfile(f); err != nil {
		f.Close()
		return nil, false, err
	}
	return &osLockFile{f, name}, acquiredExisting, nil
}
