package checks

import (
	"encoding/base64"
	"encoding/json"
	"fmt"
	"os"
	"path/filepath"
	"sort"
	"testing"

	"verif/harness/core"
)

// goldenExpected is the expected.json of a golden directory pair.
type goldenExpected struct {
	Name     string            `json:"name"`
	Writer   string            `json:"written_by"`
	Classes  map[string]bool   `json:"classes"`
	Config   string            `json:"config"`
	Steps    int               `json:"steps"`
	Contents map[string]string `json:"contents_base64"`
}

func copyDir(src, dst string) error {
	if err := os.MkdirAll(dst, 0755); err != nil {
		return err
	}
	entries, err := os.ReadDir(src)
	if err != nil {
		return err
	}
	for _, e := range entries {
		b, err := os.ReadFile(filepath.Join(src, e.Name()))
		if err != nil {
			return err
		}
		if err := os.WriteFile(filepath.Join(dst, e.Name()), b, 0644); err != nil {
			return err
		}
	}
	return nil
}

// TestGenGolden writes the golden corpus. It is run once, by tools/gen_golden.sh, with the
// harness built against a checkout of the pinned version (+ hooks only), never by a check.
func TestGenGolden(t *testing.T) {
	out := os.Getenv("VERIF_GEN_GOLDEN")
	if out == "" {
		t.Skip("VERIF_GEN_GOLDEN not set")
	}
	writer := os.Getenv("VERIF_GOLDEN_WRITER")
	want := 40
	made := 0
	covered := map[string]int{}
	for seed := uint64(1); made < want && seed < 2000; seed++ {
		ch := core.NewSeqChooser(seed)
		st := core.NewStats()
		h, err := newHist(ch, st, []string{"os"}, []int{1024, 4096, 65536})
		if err != nil {
			t.Fatal(err)
		}
		// alternate between few large and many small phases
		err = h.phases(4+int(seed%8), 200+int(seed%5)*300, []int{6, 3, 6, 2, 1, 0})
		if err != nil {
			// a defect of the pinned version was hit: this history cannot serve as golden input
			h.close()
			continue
		}
		cls := map[string]bool{
			"overflow_chain":  h.maxOverflow > 0,
			"split":           h.maxBuckets > 1,
			"level_wrap_ge2":  h.maxLevel >= 2,
			"free_list_reuse": h.freeReuse > 0,
			"rollover":        h.rollovers > 0,
			"compaction":      h.compactedSegs > 0,
			"clean_restart":   h.restarts > 0,
			"deletes":         true,
			"empty_value":     false,
			"empty_key":       false,
		}
		for k, v := range h.model {
			if v == "" {
				cls["empty_value"] = true
			}
			if k == "" {
				cls["empty_key"] = true
			}
		}
		// keep a history only if it adds coverage or we still need volume
		adds := false
		for c, on := range cls {
			if on && covered[c] < 6 {
				adds = true
			}
		}
		if !adds {
			h.close()
			continue
		}
		name := fmt.Sprintf("g%03d", made)
		dir := filepath.Join(out, name)
		if err := copyDir(h.env.Dir, filepath.Join(dir, "unclean")); err != nil {
			t.Fatal(err)
		}
		if err := h.db.Close(); err != nil {
			t.Fatal(err)
		}
		h.db = nil
		if err := copyDir(h.env.Dir, filepath.Join(dir, "clean")); err != nil {
			t.Fatal(err)
		}
		exp := goldenExpected{Name: name, Writer: writer, Classes: cls, Config: h.cfg.String(), Steps: h.step, Contents: map[string]string{}}
		for k, v := range h.model {
			exp.Contents[base64.StdEncoding.EncodeToString([]byte(k))] = base64.StdEncoding.EncodeToString([]byte(v))
		}
		b, _ := json.MarshalIndent(exp, "", " ")
		if err := os.WriteFile(filepath.Join(dir, "expected.json"), b, 0644); err != nil {
			t.Fatal(err)
		}
		h.close()
		for c, on := range cls {
			if on {
				covered[c]++
			}
		}
		made++
	}
	var cs []string
	for c, n := range covered {
		cs = append(cs, fmt.Sprintf("%s=%d", c, n))
	}
	sort.Strings(cs)
	t.Logf("wrote %d golden directories: %v", made, cs)
	if made < 10 {
		t.Fatalf("too few golden directories")
	}
}
