//go:build !(plan9 || windows)
// +build !plan9,!windows

package fs

import (
	"os"
	"syscall"
)

func createLockFile(name string, perm os.FileMode) (LockFile, bool, error) {
	acquiredExisting := false
	verifLockYield("stat")
	if _, err := os.Stat(name); err == nil {
		acquiredExisting = true
	}
	verifLockYield("open")
	f, err := os.OpenFile(name, os.O_RDWR|os.O_CREATE, perm)
	if err != nil {
		return nil, false, err
	}
	verifLockYield("flock")
	if err := syscall.Flock(int(f.Fd()), syscall.LOCK_EX|syscall.LOCK_NB); err != nil {
		if err == syscall.EWOULDBLOCK {
			err = os.ErrExist
		}
		return nil, false, err
	}
	return &osLockFile{f, name}, acquiredExisting, nil
}
