/*
Package pogreb implements an embedded key-value store for read-heavy workloads.
*/
package pogreb
