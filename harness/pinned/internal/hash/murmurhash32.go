package hash

import (
	"math/bits"
)

const (
	c1 uint32 = 0xcc9e2d51
	c2 uint32 = 0x1b873593
)

// Sum32WithSeed is a port of MurmurHash3_x86_32 function.
func Sum32WithSeed(data []byte, seed uint32) uint32 {
	h1 := seed
	dlen := len(data)

	for len(data) >= 4 {
		k1 := uint32(data[0]) | uint32(data[1])<<8 | uint32(data[2])<<16 | uint32(data[3])<<24
		data = data[4:]

		k1 *= c1
		k1 = bits.RotateLeft32(k1, 15)
		k1 *= c2

		h1 ^= k1
		h1 = bits.RotateLeft32(h1, 13)
		h1 = h1*5 + 0xe6546b64
	}

	var k1 uint32
	switch len(data) {
	case 3:
		k1 ^= uint32(data[2]) << 16
		fallthrough
	case 2:
		k1 ^= uint32(data[1]) << 8
		fallthrough
	case 1:
		k1 ^= uint32(data[0])
		k1 *= c1
		k1 = bits.RotateLeft32(k1, 15)
		k1 *= c2
		h1 ^= k1
	}

	h1 ^= uint32(dlen)

	h1 ^= h1 >> 16
	h1 *= 0x85ebca6b
	h1 ^= h1 >> 13
	h1 *= 0xc2b2ae35
	h1 ^= h1 >> 16

	return h1
}
