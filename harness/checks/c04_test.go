package checks

import (
	"fmt"
	"strings"
	"testing"

	"verif/harness/core"
	"verif/harness/dbx"
	"verif/harness/faultfs"
)

// crashPick is a drawn crash point of a recorded log.
type crashPick struct {
	P      int
	Torn   int64
	Img    *faultfs.State
	Lo, Hi int
	Ctx    string
	Desc   string
}

// drawCrashPoint draws one process-crash image of the log of s on top of base. Half of the draws
// are taken from the points a uniform draw rarely hits: torn writes and points inside Open.
func drawCrashPoint(ch core.Chooser, s *fsess, base *faultfs.State) crashPick {
	return drawCrashPointBias(ch, s, base, -1)
}

// drawCrashPointBias: tornPct >= 0 takes that share of the draws from the torn-write points
// before the usual distribution applies (tornPct < 0: the usual distribution, same draws as ever).
func drawCrashPointBias(ch core.Chooser, s *fsess, base *faultfs.State, tornPct int) crashPick {
	log := s.fs.LogCopy()
	var tearable, inOpen []int
	{
		w := newLogWalker(0)
		for p, op := range log {
			if len(faultfs.TearPoints(op)) > 0 {
				tearable = append(tearable, p)
			}
			if w.depth["O"] > 0 && op.Kind != faultfs.OpMark {
				inOpen = append(inOpen, p)
			}
			w.see(op)
		}
	}
	var p int
	forceTear := false
	mode := 0
	if tornPct < 0 || !core.Pct(ch, "crash_torn_bias", tornPct) {
		mode = ch.Int("crashmode", 0, 3)
	}
	switch {
	case mode == 0 && len(tearable) > 0:
		p = tearable[ch.Int("crash_tearable", 0, len(tearable)-1)]
		forceTear = true
	case mode == 1 && len(inOpen) > 0:
		p = inOpen[ch.Int("crash_inopen", 0, len(inOpen)-1)]
	default:
		p = ch.Int("crash_at", 0, len(log))
	}
	st := base.Clone()
	w := newLogWalker(0)
	for i := 0; i < p; i++ {
		w.see(log[i])
		st.Apply(log[i])
	}
	cp := crashPick{P: p, Img: st, Lo: w.lo, Hi: w.hi, Ctx: w.context()}
	cp.Desc = fmt.Sprintf("process crash after %d of %d file-system operations (in flight: %s)", p, len(log), cp.Ctx)
	if p < len(log) {
		cp.Desc += ", next op: " + log[p].String()
		if tp := faultfs.TearPoints(log[p]); len(tp) > 0 {
			lo := 0
			if forceTear {
				lo = 1
			}
			if k := ch.Int("tear", lo, len(tp)); k > 0 {
				cp.Torn = tp[k-1]
				st.ApplyTorn(log[p], cp.Torn)
				cp.Desc += fmt.Sprintf(", torn after %d bytes", cp.Torn)
			}
		}
	}
	return cp
}

// C04: repeated crashes, idempotent recovery, later sessions stay crash-safe.
func propC04(ch core.Chooser, st *core.Stats) error {
	_, ukeys := drawUniverse(ch)
	cfg := dbx.DrawConfig(ch, []int{600, 1024, 2048, 4096})
	cfg.SyncWrites = core.Pct(ch, "syncwrites", 10)
	ch.Note("config: %s universe=%d keys", cfg, len(ukeys))
	base := faultfs.NewState()
	model := map[string]string{}
	epochs := ch.Int("epochs", 1, core.Scale(4, 6))
	tornDiscarded := false
	nontrivial := false
	for e := 0; e < epochs; e++ {
		ch.Note("== epoch %d", e)
		s := newFsess(ch, st, base, cfg, ukeys, model)
		s.oversize = core.Pct(ch, "oversize", 15)
		if err := s.open(); err != nil {
			return fmt.Errorf("epoch %d: %v", e, err)
		}
		if strings.Contains(dbx.LogText(), "truncated segment") {
			// recovery cut something off (possibly zero bytes): remember torn tails only
		}
		if err := s.readback("after Open"); err != nil {
			return fmt.Errorf("epoch %d: %v", e, err)
		}
		if core.Pct(ch, "hazard_prefix", 25) {
			if err := s.hazardPrefill(); err != nil {
				return fmt.Errorf("epoch %d: %v", e, err)
			}
			if core.Pct(ch, "hazard_compact", 70) {
				if err := s.compact(); err != nil {
					return fmt.Errorf("epoch %d: %v", e, err)
				}
				if err := s.readback("after Compact"); err != nil {
					return fmt.Errorf("epoch %d: %v", e, err)
				}
			}
		}
		n := ch.Int("nops", 0, core.Scale(25, 60))
		if err := s.runOps(n, []int{8, 4, 2, 1, 1, 1, 1, 1}); err != nil {
			return fmt.Errorf("epoch %d: %v", e, err)
		}
		if core.Pct(ch, "finalclose", 30) {
			if err := s.closeDB(); err != nil {
				return fmt.Errorf("epoch %d: %v", e, err)
			}
		}
		cp := drawCrashPoint(ch, s, base)
		ch.Note("epoch %d: %s", e, cp.Desc)
		allowed := []map[string]string{s.states[cp.Lo]}
		if cp.Hi != cp.Lo {
			allowed = append(allowed, s.states[cp.Hi])
		}
		desc := fmt.Sprintf("epoch %d: %s", e, cp.Desc)
		res, err := checkImage(cp.Img.Clone(), cfg, ukeys, allowed, desc)
		if err != nil {
			return err
		}
		st.Eval(1)
		// recovery is idempotent: recovering the same image again gives the same contents
		res2, err := checkImage(cp.Img.Clone(), cfg, ukeys, []map[string]string{res.Got}, desc+" (second recovery of the same image)")
		if err != nil {
			return err
		}
		_ = res2
		// classification: append offsets versus file lengths after recovery
		snap := res.FS.Snapshot()
		_ = core.Safe(func() error {
			for _, seg := range res.DB.VerifSegments() {
				if int64(len(snap.Inodes[snap.Dir["db/"+seg.Name]])) != seg.Size {
					st.Count("segment_size_stale_after_recovery", 1)
				}
			}
			return nil
		})
		acked := cp.Lo > 0
		if tornDiscarded && acked {
			nontrivial = true
		}
		if cp.Torn > 0 {
			tornDiscarded = true
			st.Count("epochs_torn_crash", 1)
		}
		st.Count("epochs", 1)
		st.Count("epoch_crash_in_"+cp.Ctx, 1)
		if e > 0 {
			st.Count("epochs_starting_with_recovery_or_after_crash", 1)
		}
		model = allowed[res.Matched]
		base = cp.Img
	}
	st.Count("chains", 1)
	if nontrivial {
		st.Nontrivial(core.FingerprintOf(ch))
		st.Count("chains_torn_then_acked_then_crash", 1)
		if st.WantSample() {
			st.Sample(map[string]interface{}{"chain": core.NotesOf(ch, 60), "epochs": epochs})
		}
	}
	return nil
}

func TestC04(t *testing.T) { core.Run(t, "C04", "C04", propC04) }
