#!/usr/bin/env python3
"""Stores a confirmed seeded change under /verif/seeded/<Sxx>-<property>/.

  tools/storeseed.py <Sxx> <dir with patch.diff, demo, meta.json> <property> <demo -run pattern> \
      <detected by (comma separated check ids, may be empty)> <batch text> <detection notes>

The directory is what a sub-agent delivered; it is stored only after tools/seedtest.sh confirmed
it (builds, the existing suite passes with it, the demonstration fails with it and passes without).
"""
import glob
import json
import os
import shutil
import sys

sid, src, prop, pattern, detected, batch, notes = sys.argv[1:8]
dst = "/verif/seeded/%s-%s" % (sid, prop)
os.makedirs(dst, exist_ok=True)
shutil.copyfile(os.path.join(src, "patch.diff"), os.path.join(dst, "patch.diff"))
demos = sorted(glob.glob(os.path.join(src, "*_test.go")))
demo_name = None
if demos:
    demo_name = os.path.basename(demos[0])
    shutil.copyfile(demos[0], os.path.join(dst, demo_name))
am = json.load(open(os.path.join(src, "meta.json")))
meta = {
    "id": sid,
    "breaks_property": prop,
    "origin": "independent sub-agent given only the property text and a scratch worktree (%s)" % batch,
    "summary": am.get("summary", ""),
    "needs_to_manifest": am.get("needs_to_manifest", ""),
    "files_touched": am.get("files_touched", []),
    "demo": "%s (copy into the worktree root; go test [-tags verif] -vet=off -count=1 -run '%s' .)" % (demo_name, pattern),
    "demo_pattern": pattern,
    "confirmed_by_me": {
        "how": "tools/seedtest.sh seeded/%s-%s '%s' <checks> on a fresh scratch worktree of /repo HEAD" % (sid, prop, pattern),
        "builds": True,
        "existing_suite_with_change": "PASS (5 packages)",
        "demo_with_change": "FAIL",
        "demo_without_change": "PASS",
    },
    "detected_by_quick_checks": [c for c in detected.split(",") if c],
    "detection_notes": notes,
    "agent_meta": am,
}
json.dump(meta, open(os.path.join(dst, "meta.json"), "w"), indent=1)
print("stored", dst)
