//go:build !plan9

package fs

import (
	"io"
	"os"
)

const (
	initialMmapSize = 1024 << 20 // 1 GiB
)

type osMMapFS struct {
	osFS
}

// OSMMap is a file system backed by the os package and memory-mapped files.
var OSMMap FileSystem = &osMMapFS{}

func (fs *osMMapFS) OpenFile(name string, flag int, perm os.FileMode) (File, error) {
	if flag&os.O_APPEND != 0 {
		// osMMapFS doesn't support opening files in append-only mode.
		// The database doesn't currently use O_APPEND.
		return nil, errAppendModeNotSupported
	}
	f, err := os.OpenFile(name, flag, perm)
	if err != nil {
		return nil, err
	}

	stat, err := f.Stat()
	if err != nil {
		return nil, err
	}

	mf := &osMMapFile{
		File: f,
		size: stat.Size(),
	}
	if err := mf.mremap(); err != nil {
		return nil, err
	}
	return mf, nil
}

type osMMapFile struct {
	*os.File
	data     []byte
	offset   int64
	size     int64
	mmapSize int64
}

func (f *osMMapFile) WriteAt(p []byte, off int64) (int, error) {
	n, err := f.File.WriteAt(p, off)
	if err != nil {
		return 0, err
	}
	writeOff := off + int64(n)
	if writeOff > f.size {
		f.size = writeOff
	}
	return n, f.mremap()
}

func (f *osMMapFile) Write(p []byte) (int, error) {
	n, err := f.File.Write(p)
	if err != nil {
		return 0, err
	}
	f.offset += int64(n)
	if f.offset > f.size {
		f.size = f.offset
	}
	return n, f.mremap()
}

func (f *osMMapFile) Seek(offset int64, whence int) (int64, error) {
	off, err := f.File.Seek(offset, whence)
	f.offset = off
	return off, err
}

func (f *osMMapFile) Read(p []byte) (int, error) {
	n, err := f.File.Read(p)
	f.offset += int64(n)
	return n, err
}

func (f *osMMapFile) Slice(start int64, end int64) ([]byte, error) {
	if end > f.size {
		return nil, io.EOF
	}
	if f.data == nil {
		return nil, os.ErrClosed
	}
	return f.data[start:end], nil
}

func (f *osMMapFile) munmap() error {
	if f.data == nil {
		return nil
	}
	if err := munmap(f.data); err != nil {
		return err
	}
	f.data = nil
	f.mmapSize = 0
	return nil
}

func (f *osMMapFile) mmap(fileSize int64, mappingSize int64) error {
	if f.data != nil {
		if err := munmap(f.data); err != nil {
			return err
		}
	}

	data, err := mmap(f.File, fileSize, mappingSize)
	if err != nil {
		return err
	}

	_ = madviceRandom(data)

	f.data = data
	return nil
}

func (f *osMMapFile) mremap() error {
	mmapSize := f.mmapSize

	if mmapSize >= f.size {
		return nil
	}

	if mmapSize == 0 {
		mmapSize = initialMmapSize
		if mmapSize < f.size {
			mmapSize = f.size
		}
	} else {
		if err := f.munmap(); err != nil {
			return err
		}
		mmapSize *= 2
	}

	if err := f.mmap(f.size, mmapSize); err != nil {
		return err
	}

	// On Windows mmap may memory-map less than the requested size.
	f.mmapSize = int64(len(f.data))

	return nil
}

func (f *osMMapFile) Close() error {
	if err := f.munmap(); err != nil {
		return err
	}
	return f.File.Close()
}

// Return a default FileSystem for this platform.
func DefaultFileSystem() FileSystem {
	return OSMMap
}
