package checks

import (
	"fmt"
	"testing"

	"verif/harness/core"
	"verif/harness/dbx"
	"verif/harness/faultfs"
	"verif/harness/keys"
)

// unsyncedInodes counts the inodes that have data operations not yet covered by a sync in log[0:upto].
func unsyncedInodes(log []faultfs.Op, upto int) int {
	pending := map[int]int{}
	for i := 0; i < upto && i < len(log); i++ {
		switch op := log[i]; op.Kind {
		case faultfs.OpWrite, faultfs.OpTruncate:
			pending[op.Ino]++
		case faultfs.OpSync:
			delete(pending, op.Ino)
		}
	}
	return len(pending)
}

// C09: a cleanly closed database is a durable checkpoint.
func propC09(ch core.Chooser, st *core.Stats) error {
	// index-heavy variant (drawn): a universe with a 45-key bucket chain is inserted completely in
	// the first session, so that overflow buckets exist and are made durable by its Close; the
	// later sessions then only rewrite existing index buckets (overwrites, deletes, re-inserts
	// into freed slots) without allocating new ones - what Close has to flush for them is the
	// in-place modification of index files
	indexHeavy := core.Pct(ch, "index_heavy", 35)
	var ukeys []string
	if indexHeavy {
		seed := uint32(ch.Int("hashseed", 0, 1<<30))
		pinSeed(seed)
		u := keys.Build(seed, keys.Spec{Identical: 1, LowBits16: 45, LowBits2: 4, Plain: 6, Variant: uint32(ch.Int("univariant", 0, 3))})
		for _, k := range u.Keys {
			ukeys = append(ukeys, string(k))
		}
	} else {
		_, ukeys = drawUniverse(ch)
	}
	cfg := dbx.DrawConfig(ch, []int{600, 1024, 2048, 4096, 1 << 20})
	if indexHeavy && cfg.SegSize < 2048 {
		cfg.SegSize = 2048
	}
	cfg.SyncWrites = core.Bool(ch, "syncwrites")
	ch.Note("config: %s universe=%d keys index_heavy=%v", cfg, len(ukeys), indexHeavy)
	s := newFsess(ch, st, nil, cfg, ukeys, map[string]string{})
	s.hotCold = core.Pct(ch, "hotcold", 30)
	if err := s.open(); err != nil {
		return err
	}
	sessions := ch.Int("sessions", 1, 3)
	if indexHeavy {
		sessions = ch.Int("sessions_ih", 2, 3)
		for _, k := range ukeys {
			if err := s.put(k, core.PickInt(ch, "ih_vlen", []int{1, 5, 20})); err != nil {
				return err
			}
		}
		st.Count("histories_index_heavy", 1)
	}
	lastCloseStart := 0
	for i := 0; i < sessions; i++ {
		ch.Note("== session %d", i)
		n := ch.Int("nops", 0, core.Scale(40, 150))
		if err := s.runOps(n, []int{8, 4, 2, 1, 0, 1, 1, 1}); err != nil {
			return fmt.Errorf("session %d: %v", i, err)
		}
		lastCloseStart = s.fs.LogLen()
		if err := s.closeDB(); err != nil {
			return fmt.Errorf("session %d: %v", i, err)
		}
		if i+1 < sessions {
			if err := s.open(); err != nil {
				return fmt.Errorf("session %d: %v", i+1, err)
			}
			if dbx.RecoveryRan() {
				return fmt.Errorf("session %d: Open after a clean Close ran recovery", i+1)
			}
		}
	}
	closed := dbx.Clone(s.model)
	closePos := s.fs.LogLen()
	// the next Open is started; the power failure strikes between the return of Close and the end of that Open
	if err := s.open(); err != nil {
		return fmt.Errorf("Open after the final Close failed: %v", err)
	}
	endPos := s.fs.LogLen()
	log := s.fs.LogCopy()
	hadUnsynced := unsyncedInodes(log, lastCloseStart)
	images := core.Scale(3, 6)
	for j := 0; j < images; j++ {
		p := ch.Int("p", closePos, endPos)
		img, lost, desc := powerLoss(ch, s, faultfs.NewState(), p)
		desc = fmt.Sprintf("%s [Close returned at %d, next Open ends at %d]", desc, closePos, endPos)
		ch.Note("%s", desc)
		if _, err := checkImage(img, cfg, ukeys, []map[string]string{closed}, desc); err != nil {
			return err
		}
		st.Eval(1)
		if lost {
			st.Count("images_losing_unsynced_data", 1)
		}
		if p > closePos {
			st.Count("failure_inside_next_open", 1)
		} else {
			st.Count("failure_right_after_close", 1)
		}
		if hadUnsynced > 0 {
			st.NontrivialSub(core.FingerprintOf(ch), j)
		}
	}
	st.Count("histories", 1)
	st.Count("sessions", int64(sessions))
	if hadUnsynced > 0 {
		st.Count("histories_close_had_unsynced_files", 1)
		if st.WantSample() {
			st.Sample(map[string]interface{}{"history": core.NotesOf(ch, 50), "files_with_unsynced_data_when_close_started": hadUnsynced, "close_returned_at_fs_op": closePos, "next_open_ends_at_fs_op": endPos})
		}
	}
	return nil
}

func TestC09(t *testing.T) { core.Run(t, "C09", "C09", propC09) }
