package checks

import (
	"fmt"
	"regexp"
	"runtime"
	"runtime/debug"
	"sort"
	"strings"
	"sync"
	"sync/atomic"
	"testing"
	"time"

	"github.com/akrylysov/pogreb"

	"verif/harness/core"
	"verif/harness/dbx"
	"verif/harness/keys"
)

// C10: no data race, panic, fault or deadlock under concurrent use, including Close racing with
// everything else; operations that lose against Close fail or have no effect; no goroutine of
// the database survives Close.
//
// The data-race verdict comes from the race detector: this test is built with -race and the
// driver treats any race report of the test binary as a violation.

var goroutineHeader = regexp.MustCompile(`(?m)^goroutine (\d+) \[([^\]]+)\]:$`)

type gInfo struct {
	id, state, stack string
}

func allGoroutines() []gInfo {
	buf := make([]byte, 1<<20)
	for {
		n := runtime.Stack(buf, true)
		if n < len(buf) {
			buf = buf[:n]
			break
		}
		buf = make([]byte, 2*len(buf))
	}
	var out []gInfo
	for _, blk := range strings.Split(string(buf), "\n\n") {
		m := goroutineHeader.FindStringSubmatch(blk)
		if m == nil {
			continue
		}
		out = append(out, gInfo{id: m[1], state: m[2], stack: blk})
	}
	return out
}

const pogrebFrame = "github.com/akrylysov/pogreb."

// blockedForever reports whether the state of a goroutine is a wait on a synchronisation
// primitive (as opposed to running, runnable, in a system call, sleeping or waiting for I/O).
func blockedOnSync(state string) bool {
	s := strings.Split(state, ",")[0]
	switch {
	case strings.HasPrefix(s, "sync."), s == "semacquire", s == "chan receive", s == "chan send", s == "select":
		return true
	}
	return false
}

// deadlockVerdict is the structural deadlock rule: every goroutine that is inside a pogreb
// function is blocked on a synchronisation primitive, at least one of them exists, and two
// dumps a second apart show the same goroutines in the same states.
func deadlockVerdict(baseline map[string]bool) (bool, string) {
	snap := func() (map[string]string, string, bool) {
		m := map[string]string{}
		var sb strings.Builder
		all := true
		for _, g := range allGoroutines() {
			if !strings.Contains(g.stack, pogrebFrame) || baseline[g.id] {
				continue
			}
			m[g.id] = g.state
			if !blockedOnSync(g.state) {
				all = false
			}
			lines := strings.Split(g.stack, "\n")
			if len(lines) > 14 {
				lines = lines[:14]
			}
			sb.WriteString(strings.Join(lines, "\n") + "\n\n")
		}
		return m, sb.String(), all && len(m) > 0
	}
	a, _, okA := snap()
	time.Sleep(time.Second)
	b, dump, okB := snap()
	if !okA || !okB || len(a) != len(b) {
		return false, dump
	}
	for id, st := range a {
		if strings.Split(b[id], ",")[0] != strings.Split(st, ",")[0] {
			return false, dump
		}
	}
	return true, dump
}

// leakedGoroutines returns the stacks of goroutines that still execute pogreb code.
func leakedGoroutines(baseline map[string]bool) string {
	for i := 0; i < 200; i++ {
		var left []string
		for _, g := range allGoroutines() {
			if strings.Contains(g.stack, pogrebFrame) && !baseline[g.id] {
				left = append(left, g.stack)
			}
		}
		if len(left) == 0 {
			return ""
		}
		if i == 199 {
			return strings.Join(left, "\n\n")
		}
		time.Sleep(time.Millisecond)
	}
	return ""
}

// finalAdmissible returns the values key may hold after everything has finished: the value of
// every write W (acknowledged or failed) for which no acknowledged write is certainly later.
// "\x00absent" stands for "no value".
func finalAdmissible(ops []cop, key string) map[string]bool {
	const absent = "\x00absent"
	var ws []cop
	for _, o := range ops {
		if o.Key == key && (o.Kind == "put" || o.Kind == "del") {
			ws = append(ws, o)
		}
	}
	out := map[string]bool{}
	anyAck := false
	for _, w := range ws {
		if w.Err == "" {
			anyAck = true
		}
		later := false
		for _, w2 := range ws {
			if w2.Err == "" && w2.Call > w.Ret {
				later = true
				break
			}
		}
		if !later {
			if w.Kind == "put" {
				out[w.Val] = true
			} else {
				out[absent] = true
			}
		}
	}
	if !anyAck {
		out[absent] = true // nothing was ever acknowledged for the key
	}
	return out
}

// pogrebGoroutines returns the ids of the goroutines that currently execute pogreb code
// (left over from an earlier case that ended in a deadlock: they are not this case's).
func pogrebGoroutines() map[string]bool {
	m := map[string]bool{}
	for _, g := range allGoroutines() {
		if strings.Contains(g.stack, pogrebFrame) {
			m[g.id] = true
		}
	}
	return m
}

func propC10(ch core.Chooser, st *core.Stats) error {
	baseline := pogrebGoroutines()
	seed := uint32(ch.Int("hashseed", 0, 1<<30))
	pinSeed(seed)
	uni := keys.Build(seed, keys.Spec{Identical: 1, LowBits16: 40, LowBits2: 10, Plain: 30, Variant: uint32(ch.Int("univariant", 0, 3))})
	var ukeys []string
	for _, k := range uni.Keys {
		ukeys = append(ukeys, string(k))
	}
	kind := drawEnvKind(ch, []string{"os", "mmap", "mem", "os", "mmap"})
	env := NewEnv(kind)
	defer env.Cleanup()
	cfg := dbx.Config{SegSize: uint32(core.PickInt(ch, "segsize", []int{1024, 2048, 4096})), MinSeg: 520, Frag: []float32{0.02, 0.1, 0.3}[ch.Int("frag", 0, 2)]}
	opts := cfg.Options(env.FS)
	bgSync, bgCompact := ch.Int("bg_sync_ms", 0, 3), ch.Int("bg_compact_ms", 0, 3)
	opts.BackgroundSyncInterval = time.Duration(bgSync) * time.Millisecond
	if bgSync == 0 && core.Pct(ch, "syncwrites", 40) {
		opts.BackgroundSyncInterval = -1 // sync after every write
	}
	opts.BackgroundCompactionInterval = time.Duration(bgCompact) * time.Millisecond
	var db *pogreb.DB
	if err := core.Safe(func() error { var e error; db, e = pogreb.Open(env.Dir, opts); return e }); err != nil {
		return fmt.Errorf("Open failed: %v", err)
	}
	c := &concDB{db: db, h: &chist{}, errs: make(chan string, 64)}
	nCold := ch.Int("cold", 5, 50)
	for i := 0; i < nCold; i++ {
		c.do(0, "put", ukeys[i], mkValue(i, core.PickInt(ch, "coldvlen", []int{20, 60, 300})))
	}
	var hot []string
	for i, n := 0, ch.Int("hot", 2, 6); i < n; i++ {
		hot = append(hot, ukeys[(nCold+i*3)%len(ukeys)])
	}
	hot = append(hot, ukeys[ch.Int("coldhot", 0, nCold-1)])
	nw := ch.Int("workers", 2, core.Scale(5, 8))
	var lists [][]concOp
	total, n := 0, 0
	for w := 0; w < nw; w++ {
		var ops []concOp
		for i, m := 0, ch.Int("nops", 5, core.Scale(30, 80)); i < m; i++ {
			n++
			ops = append(ops, drawConcOp(ch, hot, fmt.Sprintf("#w%d", w), n, []int{6, 2, 4, 1, 2, 1}))
		}
		total += len(ops)
		lists = append(lists, ops)
	}
	compacts, syncs, scans, sizes := ch.Int("compacts", 0, 5), ch.Int("syncs", 0, 3), ch.Int("scans", 0, 3), ch.Int("filesizes", 0, 3)
	backups := ch.Int("backups", 0, 2)
	withClose := core.Pct(ch, "racing_close", 75)
	closeAfter := ch.Int("close_after_pct", 0, 110) // percentage of the workers' operations after which Close is issued
	// further Close calls on the same handle: racing with the first one or issued after it
	// returned. Close is a public method like any other: it may fail, it must not panic.
	extraClosers := 0
	if core.Pct(ch, "more_closers", 40) {
		extraClosers = ch.Int("extra_closers", 1, 2)
	}
	extraConcurrent := core.Bool(ch, "extra_closers_concurrent")
	ch.Note("fs=%s %s bgsync=%dms bgcompact=%dms workers=%d ops=%d compacts=%d syncs=%d scans=%d filesizes=%d backups=%d close=%v after %d%% further Close calls=%d (concurrent=%v)",
		kind, cfg, bgSync, bgCompact, nw, total, compacts, syncs, scans, sizes, backups, withClose, closeAfter, extraClosers, extraConcurrent)

	var wg sync.WaitGroup
	start := make(chan struct{})
	var opsDone int64
	var inFlight [4]int64 // reader, writer, iterator, maintenance operations in flight
	var atClose [4]int64
	// variant (drawn, only when the background worker is the only source of compactions): the
	// first compaction that reaches a yield point is parked there - outside the database lock -
	// until Close has been issued. Close has to wait for the worker: if it returns while the
	// compaction is still parked, a goroutine of the database has survived Close.
	parkBg := bgCompact > 0 && compacts == 0 && withClose && core.Pct(ch, "park_bg_compaction", 40)
	parked, release := make(chan struct{}), make(chan struct{})
	var parkOnce, releaseOnce sync.Once
	doRelease := func() { releaseOnce.Do(func() { close(release) }) }
	defer doRelease()
	pogreb.VerifCompactionYield = func(db *pogreb.DB, point string) {
		if parkBg {
			parkOnce.Do(func() {
				close(parked)
				<-release
			})
			return
		}
		runtime.Gosched()
	}
	defer func() { pogreb.VerifCompactionYield = nil }()
	class := func(kind string) int {
		switch kind {
		case "put", "del":
			return 1
		}
		return 0
	}
	spawn := func(f func()) {
		wg.Add(1)
		go func() {
			defer wg.Done()
			debug.SetPanicOnFault(true)
			<-start
			f()
		}()
	}
	for w, ops := range lists {
		w, ops := w, ops
		spawn(func() {
			for _, op := range ops {
				cl := class(op.kind)
				atomic.AddInt64(&inFlight[cl], 1)
				c.do(10+w, op.kind, op.key, op.val)
				atomic.AddInt64(&inFlight[cl], -1)
				atomic.AddInt64(&opsDone, 1)
			}
		})
	}
	var closedFlag int32
	tolerated := func(err error) bool {
		// after (or while) Close runs, operations may fail; before, only "busy" is expected
		return err == nil || strings.Contains(err.Error(), "busy") || atomic.LoadInt32(&closedFlag) != 0
	}
	aux := func(n int, cl int, what string, f func(i int) error) {
		if n == 0 {
			return
		}
		spawn(func() {
			for i := 0; i < n; i++ {
				atomic.AddInt64(&inFlight[cl], 1)
				err := core.Safe(func() error { return f(i) })
				atomic.AddInt64(&inFlight[cl], -1)
				if err != nil && strings.HasPrefix(err.Error(), "panic:") {
					c.fail("%s: %v", what, err)
				} else if !tolerated(err) {
					// FileSize may legitimately fail when compaction removes a file between
					// its directory listing and its stat; everything else must not fail
					if what != "FileSize" {
						c.fail("%s failed: %v", what, err)
					}
				}
				runtime.Gosched()
			}
		})
	}
	aux(compacts, 3, "Compact", func(i int) error { _, e := db.Compact(); return e })
	aux(syncs, 3, "Sync", func(i int) error { return db.Sync() })
	if syncs > 0 && core.Pct(ch, "second_syncer", 50) {
		aux(syncs, 3, "Sync", func(i int) error { return db.Sync() }) // two callers of Sync at once
	}
	aux(sizes, 3, "FileSize", func(i int) error { _, e := db.FileSize(); _ = db.Metrics(); return e })
	aux(backups, 3, "Backup", func(i int) error {
		bdir := fmt.Sprintf("%s-bak%d", env.Dir, i)
		err := db.Backup(bdir)
		(&Env{Kind: env.Kind, FS: env.FS, Dir: bdir}).Cleanup()
		return err
	})
	aux(scans, 2, "Items scan", func(i int) error {
		it := db.Items()
		for n := 0; n < 100000; n++ {
			_, _, e := it.Next()
			if e == pogreb.ErrIterationDone {
				return nil
			}
			if e != nil {
				return e
			}
		}
		return fmt.Errorf("scan does not terminate")
	})
	var closeCall, closeRet int64
	var closeErr error
	var closeMu sync.Mutex
	var closeErrs []error
	// oneClose calls Close and keeps its result; closeAll is what "the application closes the
	// database" means here: one call, or several on the same handle.
	oneClose := func() {
		err := core.Safe(func() error { return db.Close() })
		closeMu.Lock()
		closeErrs = append(closeErrs, err)
		closeMu.Unlock()
	}
	closeAll := func() {
		var cwg sync.WaitGroup
		if extraConcurrent {
			for i := 0; i < extraClosers; i++ {
				cwg.Add(1)
				go func() { defer cwg.Done(); debug.SetPanicOnFault(true); oneClose() }()
			}
		}
		oneClose()
		cwg.Wait()
		if !extraConcurrent {
			for i := 0; i < extraClosers; i++ {
				oneClose()
			}
		}
		// the call that found the database open is expected to succeed (healthy file system);
		// the others may fail, none may panic
		closeErr = closeErrs[0]
		for _, e := range closeErrs {
			if e == nil {
				closeErr = nil
			}
		}
		for _, e := range closeErrs {
			if e != nil && strings.HasPrefix(e.Error(), "panic:") {
				closeErr = fmt.Errorf("one of %d Close calls on the handle: %v", len(closeErrs), e)
			}
		}
	}
	closedWhileParked := false
	closed := make(chan struct{})
	if withClose {
		threshold := int64(total * closeAfter / 100)
		go func() {
			defer close(closed)
			<-start
			for atomic.LoadInt64(&opsDone) < threshold && atomic.LoadInt64(&opsDone) < int64(total) {
				runtime.Gosched()
			}
			for i := range inFlight {
				atClose[i] = atomic.LoadInt64(&inFlight[i])
			}
			if parkBg {
				select {
				case <-parked:
				case <-time.After(40 * time.Millisecond): // no compaction came by: nothing to park
				}
			}
			closeCall = c.h.now()
			atomic.StoreInt32(&closedFlag, 1)
			returned := make(chan struct{})
			go func() {
				closeAll()
				close(returned)
			}()
			if parkBg {
				select {
				case <-returned:
					// Close did not wait for the parked compaction: it stays parked until the
					// leak scan below has looked at the goroutines
					closedWhileParked = true
				case <-time.After(40 * time.Millisecond):
					doRelease() // Close is waiting for the worker, as it should: let it go on
				}
			}
			<-returned
			closeRet = c.h.now()
		}()
	}
	close(start)
	fin := make(chan struct{})
	go func() {
		wg.Wait()
		if withClose {
			<-closed
		}
		close(fin)
	}()
	select {
	case <-fin:
	case <-time.After(30 * time.Second):
		if dead, dump := deadlockVerdict(baseline); dead {
			return fmt.Errorf("deadlock: 30 s after the start every goroutine inside pogreb is blocked on a synchronisation primitive and none makes progress:\n%s", dump)
		}
		select {
		case <-fin:
		case <-time.After(90 * time.Second):
			return &core.Inconclusive{Msg: "workload did not finish within 120 s and the goroutine dump does not show a structural deadlock"}
		}
	}
	// panics, faults, unexpected failures
	for drained := false; !drained; {
		select {
		case e := <-c.errs:
			if strings.Contains(e, "panic:") || atomic.LoadInt32(&closedFlag) == 0 {
				return fmt.Errorf("%s", e)
			}
		default:
			drained = true
		}
	}
	ops := c.h.snapshot()
	for _, o := range ops {
		if strings.HasPrefix(o.Err, "panic:") {
			return fmt.Errorf("%s", o.String())
		}
		if o.Err != "" && (!withClose || o.Ret < closeCall) {
			return fmt.Errorf("operation failed although Close had not been called: %s", o.String())
		}
	}
	if !withClose {
		closeCall = c.h.now()
		closeAll()
		closeRet = c.h.now()
	}
	if closeErr != nil {
		return fmt.Errorf("Close failed: %v", closeErr)
	}
	// no goroutine of the database survives Close
	if left := leakedGoroutines(baseline); left != "" {
		return fmt.Errorf("goroutines still execute pogreb code after Close returned and all callers have returned:\n%s", left)
	}
	// operations that returned without error and were entirely before Close must be linearizable
	// every acknowledged operation takes part: an operation issued after Close was called can
	// still win the lock before Close does, and is then as effective as any other
	var before []cop
	for _, o := range ops {
		if o.Err == "" {
			before = append(before, o)
		}
	}
	if bad, _ := judge(before); bad != "" {
		return fmt.Errorf("the acknowledged operations are not linearizable: %s", bad)
	}
	// the reopened database: Close completed, so no recovery; per key the value of a write
	// that no acknowledged write certainly follows
	dbx.ResetLog()
	db2, err := dbx.Open(env.Dir, cfg, env.FS)
	if err != nil {
		return fmt.Errorf("Open after Close failed: %v", err)
	}
	defer func() { _ = core.Safe(func() error { return db2.Close() }) }()
	if dbx.RecoveryRan() {
		return fmt.Errorf("Open after a completed Close ran recovery")
	}
	got, err := dbx.Dump(db2)
	if err != nil {
		return fmt.Errorf("after Close and reopen: %v", err)
	}
	keysSeen := map[string]bool{}
	for _, o := range ops {
		if o.Kind == "put" || o.Kind == "del" {
			keysSeen[o.Key] = true
		}
	}
	var ks []string
	for k := range keysSeen {
		ks = append(ks, k)
	}
	sort.Strings(ks)
	for _, k := range ks {
		adm := finalAdmissible(ops, k)
		v, present := got[k]
		if !present {
			v = "\x00absent"
		}
		if !adm[v] {
			var a []string
			for x := range adm {
				if x == "\x00absent" {
					x = "<absent>"
				}
				a = append(a, dbx.V(x))
			}
			sort.Strings(a)
			shown := "<absent>"
			if present {
				shown = dbx.V(v)
			}
			return fmt.Errorf("after Close and reopen key %s holds %s; admissible (value of a write that no acknowledged write certainly follows): %v\nhistory of the key:\n%s",
				dbx.K(k), shown, a, keyHistory(ops, k, 40))
		}
	}
	for k := range got {
		if !keysSeen[k] {
			return fmt.Errorf("after Close and reopen the database holds key %s that was never written", dbx.K(k))
		}
	}
	if _, err := dbx.CheckIndex(db2); err != nil {
		return fmt.Errorf("index invariant after Close and reopen: %v", err)
	}
	st.Eval(1)
	st.Count("fs_"+kind, 1)
	if parkBg {
		select {
		case <-parked:
			st.Count("runs_close_issued_while_background_compaction_parked", 1)
		default:
		}
	}
	_ = closedWhileParked
	st.Count("ops", int64(len(ops)))
	if extraClosers > 0 {
		if extraConcurrent {
			st.Count("runs_with_concurrent_further_close_calls", 1)
		} else {
			st.Count("runs_with_further_close_calls_after_the_first", 1)
		}
		for _, e := range closeErrs {
			if e != nil {
				st.Count("further_close_calls_refused", 1)
			}
		}
	}
	failed := 0
	for _, o := range ops {
		if o.Err != "" {
			failed++
		}
	}
	st.Count("ops_failed_against_close", int64(failed))
	if bgSync > 0 || bgCompact > 0 {
		st.Count("runs_with_background_worker", 1)
	}
	_ = closeRet
	if withClose {
		st.Count("runs_with_racing_close", 1)
		kinds := 0
		for i := range atClose {
			if atClose[i] > 0 {
				kinds++
			}
		}
		if kinds >= 1 {
			st.Count("runs_close_with_ops_in_flight", 1)
		}
		if kinds >= 2 || failed > 0 {
			st.Nontrivial(core.FingerprintOf(ch))
			if st.WantSample() {
				st.Sample(map[string]interface{}{"setup": core.NotesOf(ch, 3), "in_flight_when_close_was_issued": map[string]int64{"readers": atClose[0], "writers": atClose[1], "iterators": atClose[2], "maintenance": atClose[3]}, "operations_failed": failed, "history_tail": strings.Split(histTail(ops, 10), "\n")})
			}
		}
	}
	return nil
}

func keyHistory(ops []cop, key string, max int) string {
	var l []cop
	for _, o := range ops {
		if o.Key == key && o.Kind != "count" {
			l = append(l, o)
		}
	}
	sort.Slice(l, func(i, j int) bool { return l[i].Call < l[j].Call })
	if len(l) > max {
		l = l[len(l)-max:]
	}
	var sb strings.Builder
	for _, o := range l {
		sb.WriteString("  " + o.String() + "\n")
	}
	return sb.String()
}

func TestC10(t *testing.T) { core.Run(t, "C10", "C10", propC10) }
